#!/usr/bin/env python3
"""Maintenance helper (not used by checks): add an entry to known_findings.json.
usage: tools_findings.py fixed|open ID PROPERTY COMMIT-or-'-' "what fails" ["mechanism"]"""
import json, sys
st, fid, prop, commit, what = sys.argv[1:6]
mech = sys.argv[6] if len(sys.argv) > 6 else what
p = "/verif/known_findings.json"
d = json.load(open(p))
d["findings"] = [f for f in d["findings"] if f["id"] != fid]
e = {"id": fid, "property": prop, "status": st, "mechanism": mech, "what_fails": what}
if st == "fixed":
    e["fix_commit"] = commit
    e["line"] = f"fixed: property={prop} {commit} {what}"
d["findings"].append(e)
d["findings"].sort(key=lambda f: (f["property"], f["id"]))
json.dump(d, open(p, "w"), indent=1); open(p, "a").write("\n")
