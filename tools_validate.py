#!/venv/bin/python
"""Maintenance helper (not used by checks): monitor validation by re-breaking.

For every *fixed* entry of known_findings.json the fix commit(s) are reverse-
applied to a scratch worktree of /repo (under /tmp, removed afterwards) and the
property's check is run against that copy (ASIMAP_REPO) with its outputs
redirected (ASIMAP_VERIF_OUT) so /verif/evidence is untouched.  A monitor that
does not fire on the re-broken tree is reported as MISSED.

usage: tools_validate.py [--tier quick] [--jobs 3] [--only ID-substring] [--patch DIR]
  --patch DIR : instead of reverts, apply every /verif/seeded/<id>/patch.diff
writes /verif/validation/<reverts|seeded>.json and prints a markdown table."""
import argparse
import json
import os
import shutil
import subprocess
import sys
import time
from concurrent.futures import ThreadPoolExecutor

VERIF = os.path.dirname(os.path.abspath(__file__))
ROOT = "/tmp/asimap-validate.%d" % os.getpid()


def sh(cmd, **kw):
    return subprocess.run(cmd, shell=True, capture_output=True, text=True, **kw)


IN_REPO = False


def run_one(job):
    name, props, how, arg, tier = job
    out = os.path.join(ROOT, "out-" + name)
    if IN_REPO:
        # the literal procedure for seeded changes: git -C /repo apply <file>, run, git -C /repo checkout -- .
        wt = "/repo"
        if sh("git -C /repo status --porcelain --untracked-files=no").stdout.strip():
            return {"name": name, "how": how, "arg": arg, "checks": {}, "error": "/repo working tree is not clean"}
    else:
        wt = os.path.join(ROOT, "wt-" + name)
        sh(f"git -C /repo worktree remove --force {wt}")
        shutil.rmtree(wt, ignore_errors=True)
        r = sh(f"git -C /repo worktree add --detach {wt} HEAD")
    res = {"name": name, "how": how, "arg": arg, "checks": {}, "applied_to": wt, "repo_head": sh("git -C /repo rev-parse --short HEAD").stdout.strip(), "seed": int(os.environ.get("VERIF_SEED", "0"))}
    try:
        if how == "revert":
            for c in arg.split("+"):
                r = sh(f"git -C {wt} show {c} -- . ':(exclude)asimap/test' | git -C {wt} apply -R")
                if r.returncode:
                    r = sh(f"git -C {wt} revert --no-commit {c}")
                if r.returncode:
                    res["error"] = "reverse apply failed: " + r.stderr[-300:]
                    return res
        else:
            r = sh(f"git -C {wt} apply {arg}")
            if r.returncode:
                res["error"] = "apply failed: " + r.stderr[-300:]
                return res
        for prop in props:
            t0 = time.time()
            env = dict(os.environ, ASIMAP_REPO=wt, ASIMAP_VERIF_OUT=os.path.join(out, prop))
            try:
                r = subprocess.run([os.path.join(VERIF, "check"), prop, "--tier", tier], env=env, capture_output=True, text=True, timeout=3600, cwd=VERIF)
                rc, txt = r.returncode, r.stdout
            except subprocess.TimeoutExpired:
                rc, txt = "timeout", ""
            kinds = []
            evp = os.path.join(out, prop, "evidence", prop + ".json")
            if os.path.exists(evp):
                with open(evp) as f:
                    kinds = json.load(f)["coverage"].get("violation_kinds", [])
            res["checks"][prop] = {"rc": rc, "violation_lines": txt.count("\nVIOLATION ") + txt.startswith("VIOLATION "), "kinds": kinds[:5], "wall": round(time.time() - t0, 1),
                                   "last": txt.strip().split("\n")[-1][:200]}
    finally:
        if IN_REPO:
            sh("git -C /repo checkout -- .")
        else:
            sh(f"git -C /repo worktree remove --force {wt}")
            shutil.rmtree(wt, ignore_errors=True)
        shutil.rmtree(out, ignore_errors=True)
    return res


def main():
    ap = argparse.ArgumentParser()
    ap.add_argument("--tier", default="quick")
    ap.add_argument("--jobs", type=int, default=3)
    ap.add_argument("--only", default="")
    ap.add_argument("--seeded", action="store_true")
    ap.add_argument("--also", default="", help="comma list of extra properties to run for every job")
    ap.add_argument("--in-repo", action="store_true", help="apply to /repo itself (sequential) instead of a scratch worktree")
    a = ap.parse_args()
    global IN_REPO
    IN_REPO = a.in_repo
    if IN_REPO:
        a.jobs = 1
    os.makedirs(ROOT, exist_ok=True)
    jobs = []
    if a.seeded:
        sd = os.path.join(VERIF, "seeded")
        for d in sorted(os.listdir(sd)):
            p = os.path.join(sd, d, "patch.diff")
            if not os.path.exists(p) or a.only not in d:
                continue
            with open(os.path.join(sd, d, "meta.json")) as f:
                meta = json.load(f)
            props = [meta["property"]] + [x for x in meta.get("also_run", []) if x != meta["property"]]
            jobs.append((d, props + [x for x in a.also.split(",") if x and x not in props], "patch", p, a.tier))
        outname = "seeded"
    else:
        with open(os.path.join(VERIF, "known_findings.json")) as f:
            ks = json.load(f)["findings"]
        for k in ks:
            if k["status"] == "fixed" and a.only in k["id"]:
                jobs.append((k["id"], [k["property"]] + [x for x in a.also.split(",") if x and x != k["property"]], "revert", k["fix_commit"], a.tier))
        outname = "reverts"
    with ThreadPoolExecutor(a.jobs) as ex:
        results = list(ex.map(run_one, jobs))
    os.makedirs(os.path.join(VERIF, "validation"), exist_ok=True)
    outp = os.path.join(VERIF, "validation", f"{outname}-{a.tier}.json")
    old = {}
    if a.only and os.path.exists(outp):
        with open(outp) as f:
            old = {r["name"]: r for r in json.load(f)}
    for r in results:
        old[r["name"]] = r
    with open(outp, "w") as f:
        json.dump([old[k] for k in sorted(old)], f, indent=1)
        f.write("\n")
    if a.seeded:
        for r in results:
            mp = os.path.join(VERIF, "seeded", r["name"], "meta.json")
            with open(mp) as f:
                meta = json.load(f)
            runs = meta.setdefault("checks_run", {})
            for pr, c in r["checks"].items():
                runs[f"{pr} {a.tier} seed={r.get('seed', 0)}" + (" (applied to /repo)" if IN_REPO else " (scratch worktree)")] = {
                    "exit": c["rc"], "fired": c["rc"] == 1, "witness_kinds": [k for k, _ in c["kinds"][:3]], "repo_head": r.get("repo_head"), "last_line": c["last"]}
            with open(mp, "w") as f:
                json.dump(meta, f, indent=1)
                f.write("\n")
    print("| change | check | exit | fired | first witness kinds | wall s |\n|---|---|---|---|---|---|")
    for r in results:
        if r.get("error"):
            print(f"| {r['name']} | - | - | n/a | {r['error'][:100]} | |")
        for p, c in r["checks"].items():
            fired = "yes" if c["rc"] == 1 else ("INCONCLUSIVE" if c["rc"] == 2 else "**no**")
            print(f"| {r['name']} | {p} | {c['rc']} | {fired} | {', '.join(k for k, _ in c['kinds'][:3])} | {c['wall']} |")
    shutil.rmtree(ROOT, ignore_errors=True)


if __name__ == "__main__":
    main()
