#!/bin/sh
# Maintenance helper: confirm + file + run one eighth-round seeded change.
# usage: tools_seed_round8.sh C07 "what it needs to manifest"
id=$1; needs=$2
mkdir -p /tmp/av
SEEDROOT=/tmp/seed8 /verif/tools_seed_confirm.sh $id > /tmp/av/confirm8_$id.txt 2>&1
cut -c1-300 /tmp/av/confirm8_$id.txt
SEEDROOT=/tmp/seed8 /verif/tools_seed_store.py $id "$needs" h > /dev/null || exit 1
cd /verif && timeout 3000 ./tools_validate.py --seeded --jobs 1 --only ${id}h 2>&1 | tail -1
