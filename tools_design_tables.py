#!/venv/bin/python
"""Maintenance helper (not used by checks): refresh the two findings tables of
DESIGN.md section 9 from known_findings.json (between HTML comment markers)."""
import json, re
k = json.load(open('/verif/known_findings.json'))['findings']
fixed = ["| property | id | fix commit | what failed |", "|---|---|---|---|"]
openf = ["| property | id | what fails (mechanism) |", "|---|---|---|"]
for f in k:
    if f['status'] == 'fixed':
        fixed.append(f"| {f['property']} | `{f['id']}` | `{f['fix_commit']}` | {f['what_fails']} |")
    else:
        openf.append(f"| {f['property']} | `{f['id']}` | {f['what_fails']} |")
s = open('/verif/DESIGN.md').read()
for name, rows in (("FIXED-TABLE", fixed), ("OPEN-TABLE", openf)):
    a, b = f"<!-- {name} -->", f"<!-- /{name} -->"
    if a in s:
        s = s[:s.index(a) + len(a)] + "\n" + "\n".join(rows) + "\n" + s[s.index(b):]
    else:
        # first time: wrap the existing table (header line is unique)
        i = s.index(rows[0]); j = i
        lines = s[i:].split("\n"); n = 0
        while n < len(lines) and lines[n].startswith("|"): n += 1
        j = i + len("\n".join(lines[:n]))
        s = s[:i] + a + "\n" + "\n".join(rows) + "\n" + b + s[j:]
open('/verif/DESIGN.md', 'w').write(s)
print(len(fixed) - 2, "fixed,", len(openf) - 2, "open")
