#!/usr/bin/env python3
"""Maintenance helper: group replay files of a property by witness kind."""
import json, glob, collections, sys
prop = sys.argv[1]
n = int(sys.argv[2]) if len(sys.argv) > 2 else 10
c = collections.Counter(); ex = {}
for f in sorted(glob.glob(f'/verif/replays/{prop}-*.json')):
    d = json.load(open(f))['case']; w = d['witness']
    k = (w.get('kind'),); c[k] += 1; ex.setdefault(k, (f, str(w.get('detail'))[:500], w.get('history', [])[-n:]))
for k, v in c.most_common():
    print(v, k, '\n    ', ex[k][0], '\n    ', ex[k][1], '\n     ', '\n      '.join(str(x)[:130].replace('\r\n', ' ') for x in ex[k][2]))
