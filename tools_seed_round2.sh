#!/bin/sh
# Maintenance helper: confirm + file + run one second-round seeded change.
# usage: tools_seed_round2.sh C07 "what it needs to manifest"
id=$1; needs=$2
SEEDROOT=/tmp/seed2 /verif/tools_seed_confirm.sh $id > /tmp/av/confirm2_$id.txt 2>&1
cut -c1-200 /tmp/av/confirm2_$id.txt
SEEDROOT=/tmp/seed2 /verif/tools_seed_store.py $id "$needs" b > /dev/null || exit 1
cd /verif && timeout 3000 ./tools_validate.py --seeded --jobs 1 --only ${id}b 2>&1 | tail -1
