#!/venv/bin/python
"""Maintenance helper (not used by checks): file a confirmed seeded change under
/verif/seeded/<ID>/ (patch.diff, demo.py, notes.md, meta.json).
usage: tools_seed_store.py C07 "what it needs to manifest" [name-suffix]"""
import json
import os
import shutil
import sys

pid, needs = sys.argv[1], sys.argv[2]
suffix = sys.argv[3] if len(sys.argv) > 3 else ""
src = os.path.join(os.environ.get("SEEDROOT", "/tmp/seed"), pid, "_seed")
dst = f"/verif/seeded/{pid}{suffix}"
os.makedirs(dst, exist_ok=True)
for f in ("patch.diff", "demo.py", "notes.md"):
    if os.path.exists(os.path.join(src, f)):
        shutil.copy(os.path.join(src, f), os.path.join(dst, f))
with open(os.path.join(src, "confirm.json")) as f:
    c = json.load(f)
meta = {
    "property": pid,
    "origin": "independent sub-agent given only the property text and a scratch worktree" + ({"b": " (second round)", "c": " (third round)", "d": " (fourth round)", "e": " (fifth round)", "f": " (sixth round)", "g": " (seventh round)", "h": " (eighth round)"}.get(suffix, "")),
    "needs_to_manifest": needs,
    "confirmed_by_me": {
        "demo_on_unchanged_tree_exit": c["demo_without_rc"],
        "demo_with_patch_exit": c["demo_with_rc"],
        "pinned_suite_with_patch": c["suite_summary"],
        "suite_failures_with_patch": [x for x in c["suite_fails"].split(";") if x],
        "how": "tools_seed_confirm.sh in the agent's scratch worktree (demo.py without / with patch.diff; pinned suite with patch, test_server.py serialised)",
    },
    "checks_run": {},
}
old = os.path.join(dst, "meta.json")
if os.path.exists(old):
    with open(old) as f:
        meta["checks_run"] = json.load(f).get("checks_run", {})
with open(old, "w") as f:
    json.dump(meta, f, indent=1)
    f.write("\n")
print(json.dumps(meta["confirmed_by_me"], indent=1))
