#!/usr/bin/env python3
"""Maintenance helper (not used by checks): regenerate MANIFEST.json from the
table below.  Properties without an entry in CHECKS are listed under
not_applicable with the reason in PENDING."""
import json

CHECKS = {
    "C06": dict(
        category="exploration",
        technique="runtime monitor on recorded client-boundary history (exactly-one tagged reply, virtual-time latency, watchdog-path log monitor)",
        text=("Exploration: generated commands x argument classes x session/mailbox states are sent to the real per-user server running in process "
              "under a virtual clock; a monitor on each session's byte stream asserts exactly one tagged reply with the command's tag, no late bytes, "
              "virtual latency < 60 s, the command-watchdog path not taken, and that the session answers a following NOOP unless BYE was sent. "
              "Held means: on the commands listed in the evidence file."),
        note="virtual clock replaces wall time (thread work costs zero virtual time); the in-memory stream replaces the loopback TCP hop between the two asimap processes; strict response parser (wire.py) decodes the stream",
        design="DESIGN.md section 4 C06",
    ),
}

_HIST_NOTE = ("virtual clock replaces wall time; in-memory streams replace the loopback TCP hop; external MH agent = stdlib mailbox.MH + os.utime bump; "
              "Mailbox.FOLDER_SIZE_PACK_LIMIT lowered in some shards; the reference model is outcome-driven where RFC 3501 leaves the server a choice")


def _hist(pid, technique, text):
    CHECKS[pid] = dict(category="exploration", technique=technique, text=text + " Held means: on the histories listed in the evidence file.",
                       note=_HIST_NOTE, design=f"DESIGN.md section 4 {pid}")


_hist("C01", "runtime monitor: per-session view replayer over the recorded byte stream + flush comparison with the server's message list",
      "Exploration: forced skeletons and seeded random multi-session histories on the real server in process; every response a session receives is replayed "
      "into its view (EXISTS never shrinks, EXPUNGE/FETCH name existing positions, no EXPUNGE during non-UID FETCH/STORE/SEARCH, UIDs per cell stable and ascending) "
      "and at every NOOP/CHECK/IDLE flush the view must equal the server's message list.")
_hist("C02", "runtime monitor: write-once (mailbox, UIDVALIDITY, UID)->message ledger and UIDNEXT/UIDVALIDITY monotonicity over recorded histories",
      "Exploration: histories with expunge, copy/move-in, pack (lowered threshold), rename, delete/re-create, deliveries and orderly restarts; after every step an "
      "observer re-reads all mailboxes and the ledger rules (ascending, never reused, UIDNEXT above all and non-decreasing, APPENDUID/COPYUID honest, UIDVALIDITY "
      "constant or larger after re-creation) are evaluated.")
_hist("C03", "runtime monitor: UID->(content digest, INTERNALDATE) ledger re-checked after every step; seq-form vs UID-form differential",
      "Exploration: histories biased to expunging arbitrary subsets, packing, deliveries, rename and restart; every live message is re-fetched by UID after every "
      "step (BODY.PEEK[] digest + INTERNALDATE) and FETCH 1:* / UID FETCH 1:* triples are compared.")
_hist("C04", "runtime monitor: reference flag model vs own FETCH data, other sessions' notifications, observer FETCH/SEARCH probes and on-disk .mh_sequences",
      "Exploration: STORE/FETCH/APPEND/COPY/SEARCH sequences over 1-3 sessions with system flags in mixed case and keyword atoms; all 64 initial flag sets of a message "
      "enumerated; known findings (unseen keyword exposure, MH-sequence-name aliasing) are classified by mechanism.")
_hist("C05", "runtime monitor: conservation over unique content identities (observer snapshot after every command vs model prediction)",
      "Exploration: EXPUNGE/UID EXPUNGE/CLOSE/COPY/MOVE/APPEND with arbitrary \\Deleted subsets, partly non-existent UID sets, same-mailbox/missing destinations, EXAMINE "
      "sessions; after every command the observer's view of every mailbox must equal the model's exact prediction; refused commands and EXAMINE sessions change nothing.")
_hist("C12", "runtime monitor: full client-visible observation before shutdown() compared with the one after restart",
      "Exploration: histories reaching sparse UID lists, packed folders, keyword flags, \\Noselect placeholders, renamed trees and subscriptions with orderly restarts "
      "at random steps and, in one skeleton, after every step; LIST, LSUB, STATUS and UID FETCH (UID FLAGS) must be equal modulo \\Recent and re-created SPECIAL-USE mailboxes.")
_hist("C13", "runtime monitor: delivery announcements in the recorded streams + .mh_sequences read as an MH tool would after every command",
      "Exploration: alternations of external MH deliveries (stdlib mailbox.MH agent) with IMAP commands from selected, idling and unselected sessions; deliveries must "
      "be announced with fresh larger UIDs, \\Recent and the agent's flags; .mh_sequences must list no removed message and agree with the flags sessions see, including "
      "the number-reuse scenario.")

PENDING = "check under construction in this round; not yet validated against the unchanged tree and seeded changes"

ALL = ["C%02d" % i for i in range(1, 21)]


def main():
    checks = []
    for pid in ALL:
        if pid not in CHECKS:
            continue
        c = CHECKS[pid]
        checks.append({
            "property_id": pid,
            "quick_cmd": f"./check {pid} --tier quick",
            "thorough_cmd": f"./check {pid} --tier thorough",
            "evidence_file": f"/verif/evidence/{pid}.json",
            "replay_cmd_template": f"./check {pid} --replay {{path}}",
            "engine": c.get("engine", "rig+vloop"),
            "level_claimed": {"category": c["category"], "text": c["text"], "design_ref": c["design"]},
            "level_note": c["note"],
            "technique": c["technique"],
        })
    m = {
        "version": 1,
        "setup_cmd": "/venv/bin/python -B -c \"import sys; sys.path.insert(0,'/repo'); sys.path.insert(0,'/verif'); import asimap, asimap_verif.rig, asimap_verif.wire; print('asimap-verif ok')\"",
        "hooks": {
            "guard": "ASIMAP_VERIF",
            "enable": "no source hooks exist: checks import /repo's working tree (PYTHONPATH=/repo) and observe it through stream objects, audit hooks, the sqlite trace callback and a custom event loop",
            "baseline_off_cmd": "cd /repo && /venv/bin/python -m pytest -ra -q -p no:cacheprovider --timeout=900 --continue-on-collection-errors",
            "source_commits": [],
            "add_only": True,
        },
        "engines": [
            {"name": "rig+vloop", "path": "asimap_verif/rig.py", "serves_properties": sorted(CHECKS), "kind_free_text": "real per-user server in process, sessions at the byte boundary, virtual-time event loop, audit-hook guard + mount-namespace jail"},
            {"name": "wire", "path": "asimap_verif/wire.py", "serves_properties": sorted(CHECKS), "kind_free_text": "strict independent IMAP response / POP3 reply parser (oracle for C07, decoder for all)"},
        ],
        "checks": checks,
        "not_applicable": [{"property_id": p, "reason": PENDING} for p in ALL if p not in CHECKS],
        "notes": "Technique family: runtime monitoring. Every check exits 0 (held on what was explored), 1 + VIOLATION line, or 2 + INCONCLUSIVE line (deciding monitor not reached / worker failure). Known findings: /verif/known_findings.json (open entries print KNOWN-FINDING; fixed entries suppress nothing).",
    }
    with open("/verif/MANIFEST.json", "w") as f:
        json.dump(m, f, indent=1)
        f.write("\n")


if __name__ == "__main__":
    main()
