#!/usr/bin/env python3
"""Maintenance helper (not used by checks): regenerate MANIFEST.json from the
table below.  Properties without an entry in CHECKS are listed under
not_applicable with the reason in PENDING."""
import json

CHECKS = {
    "C06": dict(
        category="exploration",
        technique="runtime monitor on recorded client-boundary history (exactly-one tagged reply, virtual-time latency, watchdog-path log monitor)",
        text=("Exploration: generated commands x argument classes x session/mailbox states are sent to the real per-user server running in process "
              "under a virtual clock; a monitor on each session's byte stream asserts exactly one tagged reply with the command's tag, no late bytes, "
              "virtual latency < 60 s, the command-watchdog path not taken, and that the session answers a following NOOP unless BYE was sent. "
              "Held means: on the commands listed in the evidence file."),
        note="virtual clock replaces wall time (thread work costs zero virtual time); the in-memory stream replaces the loopback TCP hop between the two asimap processes; strict response parser (wire.py) decodes the stream",
        design="DESIGN.md section 4 C06",
    ),
}

_HIST_NOTE = ("virtual clock replaces wall time; in-memory streams replace the loopback TCP hop; external MH agent = stdlib mailbox.MH + os.utime bump; "
              "Mailbox.FOLDER_SIZE_PACK_LIMIT lowered in some shards; the reference model is outcome-driven where RFC 3501 leaves the server a choice")


_HIST_EXTRA = (" Random histories also contain sessions that leave (LOGOUT, connections that just end -- idling, with updates queued, or in the middle of a command), "
               "deliveries during which the MH agent is caught half way through rewriting .mh_sequences, deliveries followed by one injected write fault (ENOSPC) on the "
               "server's own .mh_sequences rewrite, and restarts that run the start-up scan of every recorded folder, sometimes with one failing stat (ESTALE).")

EXTRA = {
    "C08": " Every input is also handed to the parser's octet entry (parse_cmd_from_msg(bytes)) and must be read like its text; string pools contain well-formed UTF-8.",
    "C09": " Every script ends with the scenario 'what a RENAME that failed half-way leaves behind' (own folders named like the neighbour's path, an inferior's directory gone, later RENAMEs moving the leftover link to other levels, then every use of those names).",
    "C10": " Forced sets right after a restart (two sessions naming the same inactive mailbox beside RENAME/CREATE elsewhere); delay-injection runs in which one database round trip is slow.",
    "C14": " In half of the scripts the mailbox changes between rounds of programs (last message expunged, arrivals under its number, flag changes, pack by the periodic check).",
    "C15": " Stage 'sets after an EXPUNGE whose commit to the database failed once' (failpoint on Mailbox.commit_to_db called by expunge).",
    "C16": " The equations are evaluated again after the folder changed under the messages (number reuse after expunge of the last message, pack).",
    "C07": " The message checks run again after number reuse and after a pack.",
    "C17": " SPECIAL-USE names are deleted (with an inferior: placeholder; as leaves: gone until the next start re-creates them) and restarts run the start-up folder scan, sometimes with one failing stat.",
    "C18": " Attempts are also made on connections already used (another LOGIN; PASS without a new USER).",
    "C20": " Front-end stage: POP3 client streams, cut into arbitrary segments and ending in the middle of a command, go through the real POP3Client.start() line reader and framing into the real per-user server; only complete lines are commands, messages go only after a complete QUIT.",
    "C12": " Half of the restarts run the start-up scan of every recorded folder, sometimes with one failing stat (ESTALE) of a folder.",
}


def _hist(pid, technique, text):
    CHECKS[pid] = dict(category="exploration", technique=technique, text=text + _HIST_EXTRA + " Held means: on the histories listed in the evidence file.",
                       note=_HIST_NOTE, design=f"DESIGN.md section 4 {pid}")


_hist("C01", "runtime monitor: per-session view replayer over the recorded byte stream + flush comparison with the server's message list",
      "Exploration: forced skeletons and seeded random multi-session histories on the real server in process; every response a session receives is replayed "
      "into its view (EXISTS never shrinks, EXPUNGE/FETCH name existing positions, no EXPUNGE during non-UID FETCH/STORE/SEARCH, UIDs per cell stable and ascending) "
      "and at every NOOP/CHECK/IDLE flush the view must equal the server's message list.  Scheduled tier: concurrent command sets (MOVE into the selected mailbox, "
      "STORE landing during a MOVE, EXPUNGE beside APPEND/COPY, POP3 QUIT with marks, plus C10's sets) run under the deterministic scheduler with an always-on "
      "view monitor on every session; at quiescence every session synchronises once more and the number of messages it can address, and the flags it was last told "
      "per position (belief monitor), must be what FETCH 1:* answers.")
_hist("C02", "runtime monitor: write-once (mailbox, UIDVALIDITY, UID)->message ledger and UIDNEXT/UIDVALIDITY monotonicity over recorded histories",
      "Exploration: histories with expunge, copy/move-in, pack (lowered threshold), rename, delete/re-create, deliveries and orderly restarts; after every step an "
      "observer re-reads all mailboxes and the ledger rules (ascending, never reused, UIDNEXT above all and non-decreasing, APPENDUID/COPYUID honest, UIDVALIDITY "
      "constant or larger after re-creation) are evaluated.  Skeletons add kills without shutdown at quiet moments, folders found together at start-up, and "
      "DELETE of folders that hold non-message files.")
_hist("C03", "runtime monitor: UID->(content digest, INTERNALDATE) ledger re-checked after every step; seq-form vs UID-form differential",
      "Exploration: histories biased to expunging arbitrary subsets, packing, deliveries, rename and restart; every live message is re-fetched by UID after every "
      "step (BODY.PEEK[] digest + INTERNALDATE) and FETCH 1:* / UID FETCH 1:* triples are compared.")
_hist("C04", "runtime monitor: reference flag model vs own FETCH data, other sessions' notifications, observer FETCH/SEARCH probes and on-disk .mh_sequences",
      "Exploration: STORE/FETCH/APPEND/COPY/SEARCH sequences over 1-3 sessions with system flags in mixed case and keyword atoms; all 64 initial flag sets of a message "
      "enumerated; known findings (unseen keyword exposure, MH-sequence-name aliasing) are classified by mechanism.  Scheduled tier: flag changes racing removals and "
      "each other under the deterministic scheduler; what each session was last told about every position's flags (notifications and own responses, EXPUNGEs applied in "
      "the order received) must be what FETCH says at quiescence.")
_hist("C05", "runtime monitor: conservation over unique content identities (observer snapshot after every command vs model prediction)",
      "Exploration: EXPUNGE/UID EXPUNGE/CLOSE/COPY/MOVE/APPEND with arbitrary \\Deleted subsets, partly non-existent UID sets, same-mailbox/missing destinations, EXAMINE "
      "sessions; after every command the observer's view of every mailbox must equal the model's exact prediction; refused commands and EXAMINE sessions change nothing.")
_hist("C12", "runtime monitor: full client-visible observation before shutdown() compared with the one after restart",
      "Exploration: histories reaching sparse UID lists, packed folders, keyword flags, \\Noselect placeholders, renamed trees and subscriptions with orderly restarts "
      "at random steps and, in one skeleton, after every step; LIST, LSUB, STATUS and UID FETCH (UID FLAGS) must be equal modulo \\Recent and re-created SPECIAL-USE mailboxes.")
_hist("C13", "runtime monitor: delivery announcements in the recorded streams + .mh_sequences read as an MH tool would after every command",
      "Exploration: alternations of external MH deliveries (stdlib mailbox.MH agent) with IMAP commands from selected, idling and unselected sessions; deliveries must "
      "be announced with fresh larger UIDs, \\Recent and the agent's flags; .mh_sequences must list no removed message and agree with the flags sessions see, including "
      "the number-reuse scenario.")

def _fn(pid, technique, text, note, engine="rig+vloop"):
    CHECKS[pid] = dict(category="exploration", technique=technique, text=text, note=note, design=f"DESIGN.md section 4 {pid}", engine=engine)


_fn("C07", "runtime monitor: strict independent response parser on every octet sent + ENVELOPE/LIST/STATUS round-trip oracles",
    "Exploration: generated RFC 5322/MIME messages of every structural class with hostile header values (quotes, backslashes, encoded words, raw 8-bit, folding, missing "
    "fields) and the fixture corpus are stored as files and by APPEND and fetched with every data item, section, partial and macro; mailboxes with hostile names are "
    "listed; error paths echoing client input are driven.  Every octet every session receives must parse under the strict RFC 3501 response grammar (CRLF, literal "
    "counts, quoted strings, balanced parentheses, ENVELOPE/BODYSTRUCTURE arities) and decoded strings must give back header values and names.  Held on the "
    "messages/names listed in the evidence.",
    "the response grammar is DESIGN appendix G; raw 8-bit header values are excluded from the round-trip comparison only")
_fn("C16", "runtime monitor: equations between FETCH literals of the same stored message; APPEND/COPY fidelity oracles",
    "Exploration: the same generated corpus; per stored message RFC822.SIZE=|BODY[]|, HEADER||TEXT=BODY[], RFC822*=BODY[*], <o.n>=slice, repeatability, CRLF-only, "
    "APPEND header-field/body-content fidelity and COPY byte identity.  Held on the messages listed in the evidence; one open known finding (bare LF in a multipart preamble).",
    "APPEND fidelity compares fields as a multiset of (name, RFC 2047-decoded value) and bodies after transfer decoding; fixture messages whose MIME structure parses differently are compared on equations only")
_fn("C14", "runtime monitor: independent search evaluator on server-reported facts + algebraic law instances",
    "Exploration: search programs generated from the RFC 3501 search grammar (depth <= 4, every key) over mailboxes of 0-10 generated messages with planted unique tokens; "
    "results compared with a reference evaluator using FLAGS/RFC822.SIZE/INTERNALDATE as reported by the server plus generator ground truth, and with NOT/OR/AND/idempotence/"
    "De Morgan/UID-mapping law instances.  Held on the programs listed in the evidence.",
    "charset conversion, matching inside encoded words and SENT* keys on messages without a Date header are not asserted")
_fn("C15", "runtime monitor: reference denotation of a sequence set vs every interpreter (end-to-end commands and the real functions called on a live Mailbox)",
    "Exploration, exhaustive on the bound in the thorough tier: every set of <= 3 elements over {0..N+1,*} and their ranges for N <= 5 at function level "
    "(msg_set_to_msg_seq_set, sequence_set_to_list as COPY uses it, the search matchers), every set of <= 2 elements end-to-end in FETCH/UID FETCH/SEARCH keys/STORE/COPY "
    "and sampled MOVE/UID MOVE/UID EXPUNGE on sparse-UID mailboxes; rejected non-UID numbers must never be applied.  Arrivals stage: the mailbox changes behind the session's "
    "back (MH delivery, another session's APPEND or EXPUNGE) and the first command sent afterwards is a UID FETCH/STORE/SEARCH/COPY whose set contains * or reaches past the known UIDs.",
    "function-level evaluation calls the real functions on the live Mailbox object of the rig; UID sets containing 0 may be rejected or ignored")
_fn("C08", "differential runtime monitor: real IMAPClientCommand.parse() vs an independent RFC 3501 command reader; totality monitor; proxy end-to-end sample",
    "Exploration: grammar-directed sentences of every command and argument encoding, their truncations/mutations/garbage, random bytes and adversarial specials; "
    "the real parser must reject non-sentences with BadCommand only, within a CPU budget, and for sentences produce the same command, UID flag, sets, names (quoted escapes "
    "decoded, literals by count, only exact INBOX folded), flags, dates, fetch attributes, search tree, options and APPEND literal; rejected inputs sent through the real "
    "proxy get BAD and the session survives.  Five open known findings are classified by mechanism.",
    "the reference reader (refparse.py) is hand-written from the ABNF and self-tested against the sentence generator", engine="refparse")

_fn("C18", "runtime monitor: reference throttle automaton vs the real check_allow/login_failed on a harness clock (exhaustive bounded enumeration) + gate recorder and audit hook on the mail roots",
    "Exploration, exhaustive on the bound in the thorough tier: every timed attempt sequence (one user/one address, gaps {1,59,61,121}, right/wrong, length <= 8; two users x two "
    "addresses, gaps {1,61}, length <= 6) is run against the real throttle functions and must agree with the automaton of DESIGN appendix C at every step; random timed walks go "
    "end-to-end through do_login and POP3 _do_pass under the virtual clock; generated pre-authentication command sequences (all commands, wrong/empty/prefix/suffix/case-changed "
    "passwords, unusable/empty/garbage/unknown-algorithm hashes) go through the real front-end handlers with a recorder in place of the subprocess connection and an audit hook on "
    "every mail root.",
    "asimap.throttle.time replaced by a harness clock; scrypt-hashed fixture accounts; gaps exactly equal to the purge interval are not generated", engine="frontend")
_fn("C19", "runtime monitor: reference tokenizer of the client byte stream vs the frames written by the real front-end under many segmentations; relay identity",
    "Exploration: streams of 1-8 commands with synchronising / non-synchronising literals around the size limits (MAX_INPUT_SIZE lowered to 256/4096), literal text that looks like "
    "commands, empty lines, trailing white space, cut into segments at none / one / random / every byte offset, are fed to the real server.IMAPClient.start(); the commands framed "
    "for the user process (and de-framed by the real IMAPClientProxy.run()) must equal the reference tokenization, '+' continuations and BAD refusals must match in number; response "
    "streams with CRLF-free runs up to 1 MiB must pass the real IMAP and POP3 msgs_to_client() unmodified.",
    "recording writers replace the client socket and the connection to the user process; stream readers use the production limits", engine="frontend")
_fn("C20", "runtime monitor: POP3 reply reader + session model (snapshot table, DELE marks) + IMAP observer of INBOX",
    "Exploration: POP3 sessions (valid/invalid/repeated/marked numbers, QUIT / abrupt disconnect / no ending) over INBOXes with dot lines, lone dots, missing final newline, "
    "8-bit and long lines and sparse UIDs, interleaved with IMAP APPEND/EXPUNGE/STORE, deliveries, number reuse and packing; the listing table, UIDL=IMAP UID, RETR identity by "
    "content id, announced size = delivered octets after un-stuffing, a size once announced never changing (vanished messages included), termination, deletion only of the "
    "marked messages and only at QUIT are checked; half of the scripts begin with a fixed scenario (marks + IMAP expunge of a marked message + QUIT; sizes announced, message "
    "expunged, read, sizes asked again; RENAME INBOX with the session open).",
    "POP3 sessions run in the user process (POP3ClientProxy) at the same byte boundary as IMAP sessions")

_hist("C17", "runtime monitor: namespace reference model vs LIST/LSUB (plain and LIST-EXTENDED), an independent wildcard matcher, the directory tree and the observer",
      "Exploration: histories of CREATE/DELETE/RENAME (incl. RENAME INBOX)/SUBSCRIBE/UNSUBSCRIBE, invalid namespace commands, APPENDs and orderly restarts over names with "
      "spaces and regex/SQL metacharacters nested to depth 3; after every command LIST \"\" *, LSUB \"\" *, generated (reference, pattern) pairs, one LIST-EXTENDED form and the "
      "directory tree are compared with the model; refused commands must change nothing; renamed subtrees keep messages, UIDs and flags (observer).  One open known finding "
      "(a deleted subscribed leaf is kept as \\Noselect).")
_fn("C09", "runtime monitor: audit-hook path monitor for the life of the server + file-system diff of the jail outside the mail root + leak / existence-oracle differential on responses",
    "Exploration: every mailbox-name argument position x a name language of '..' chains (cancelling through legitimate neighbours), absolute and doubled-slash paths, '.', "
    "wildcards x atom/quoted/literal/literal+ encodings, on a server whose mail root sits three levels deep in a jail beside a decoy user's mail and canary files; no audited "
    "path may resolve inside the jail but outside the mail root, the outside tree (names, sizes, mtimes, SHA-256) must not change, escaping names must be refused, responses must "
    "contain no canary token or decoy folder name, and existing vs missing outside targets must be answered identically.",
    "os.stat raises no audit event (covered by the existence differential); every worker runs in a mount-namespace jail when unshare is permitted and under the audit guard")

_fn("C10", "runtime monitor under a deterministic scheduler: concurrent executions vs the set of sequential executions of the same commands (differential linearizability check); watchdog/progress monitor",
    "Exploration: sets of concurrently issued commands from 2-3 IMAP/POP3 sessions (forced: opposite-direction COPY/MOVE, commands queued behind EXPUNGE, DELETE/RENAME of a "
    "mailbox with queued commands, POP3 QUIT with marks; then seeded random sets) run on the real server under SLoop, which parks every thread-pool and aiosqlite completion and "
    "releases them in FIFO, seeded random, one-at-a-time and depth-bounded systematically enumerated orders; the normalised outcome of every command and the final contents of "
    "every mailbox must equal those of some sequential order of the same commands (all admissible permutations, MOVE also as its documented steps, executed one command at a time "
    "by the same server) and no command may be completed by the watchdog.  Held on the command sets and schedules counted in the evidence.",
    "schedules are arrival orders of I/O completions, timers and commands only; the sequential reference is the same code run one command at a time (its sequential correctness is C01-C05's subject)", engine="sloop")
CHECKS["C11"] = dict(category="fault_enumeration",
    technique="fault injection: SIGKILL before every persistent mutation (audit events + SQL statements) of each history and, with strace syscall fault injection, before the K-th write/fsync/pwrite64/fdatasync/unlink system call; recovery oracle over the surviving client-side ledger",
    text=("Fault enumeration: for each representative history (messages/flags/expunge; copy/move/namespace; pack + delivery + RENAME INBOX; short exhaustive histories around one EXPUNGE, one DELETE and one RENAME INBOX; bare start-up on fresh, pre-existing and "
          "old-schema directories) the server runs in a child process that kills itself before mutation K, for every K (thorough: every point of every history; quick: start-up "
          "histories exhaustively, the others sampled); a fresh process, every third time after an MH delivery made while the server was down, restarts the server: start-up must "
          "succeed, every mailbox must SELECT, every acknowledged APPEND/COPY/MOVE message is present, acknowledged expunges stay expunged, acknowledged flags persist, no "
          "revealed (UIDVALIDITY, UID) names another message and UIDNEXT is above every revealed UID; when that holds the recovered server is killed in its turn and a third one is "
          "judged the same way (a repair made only in memory does not count).  Open known findings are classified by mechanism (see known_findings.json).  Second tier: the same histories under strace with SIGKILL injected on entry to the K-th system call of a lane (file lane: write, writev, fsync, "
          "ftruncate; database lane: pwrite64, fdatasync, unlink), which produces the states inside one mutation (empty message file, truncated .mh_sequences, journal written "
          "but not synced); same recovery oracle, in-flight tolerance exact (flags of a message must equal the model before or after the in-flight command)."),
    note="a crash is a process kill (Python-level mutation points and system-call entries); completed write()s survive; power loss / torn writes below the system-call level are out of scope; strace counts system calls per thread",
    design="DESIGN.md section 4 C11", engine="crash")

PENDING = "check under construction in this round; not yet validated against the unchanged tree and seeded changes"

ALL = ["C%02d" % i for i in range(1, 21)]


def main():
    checks = []
    for pid in ALL:
        if pid not in CHECKS:
            continue
        c = CHECKS[pid]
        checks.append({
            "property_id": pid,
            "quick_cmd": f"./check {pid} --tier quick",
            "thorough_cmd": f"./check {pid} --tier thorough",
            "evidence_file": f"/verif/evidence/{pid}.json",
            "replay_cmd_template": f"./check {pid} --replay {{path}}",
            "engine": c.get("engine", "rig+vloop"),
            "level_claimed": {"category": c["category"], "text": c["text"] + EXTRA.get(pid, ""), "design_ref": c["design"]},
            "level_note": c["note"],
            "technique": c["technique"],
        })
    m = {
        "version": 1,
        "setup_cmd": "/venv/bin/python -B -c \"import sys; sys.path.insert(0,'/repo'); sys.path.insert(0,'/verif'); import asimap, asimap_verif.rig, asimap_verif.wire; print('asimap-verif ok')\"",
        "hooks": {
            "guard": "ASIMAP_VERIF",
            "enable": "no source hooks exist: checks import /repo's working tree (PYTHONPATH=/repo) and observe it through stream objects, audit hooks, the sqlite trace callback and a custom event loop",
            "baseline_off_cmd": "cd /repo && /venv/bin/python -m pytest -ra -q -p no:cacheprovider --timeout=900 --continue-on-collection-errors",
            "source_commits": [],
            "add_only": True,
        },
        "engines": [
            {"name": "rig+vloop", "path": "asimap_verif/rig.py", "serves_properties": sorted(CHECKS), "kind_free_text": "real per-user server in process, sessions at the byte boundary, virtual-time event loop, audit-hook guard + mount-namespace jail"},
            {"name": "sloop", "path": "asimap_verif/vloop.py", "serves_properties": ["C10"], "kind_free_text": "deterministic scheduler: virtual-time event loop that parks thread-pool and aiosqlite completions and releases them under a recorded, replayable strategy"},
            {"name": "crash", "path": "asimap_verif/crash.py", "serves_properties": ["C11"], "kind_free_text": "kill-point driver (audit hook + sqlite trace callback; strace -e inject=...:signal=SIGKILL:when=K for system-call level kills) and recovery oracle in separate processes"},
            {"name": "frontend", "path": "asimap_verif/props/c19.py", "serves_properties": ["C18", "C19"], "kind_free_text": "real server.IMAPClient / POP3Client / IMAPSubprocessInterface objects with fed StreamReaders and recording writers"},
            {"name": "refparse", "path": "asimap_verif/refparse.py", "serves_properties": ["C08"], "kind_free_text": "independent reference reader of the RFC 3501 command grammar"},
            {"name": "wire", "path": "asimap_verif/wire.py", "serves_properties": sorted(CHECKS), "kind_free_text": "strict independent IMAP response / POP3 reply parser (oracle for C07, decoder for all)"},
        ],
        "checks": checks,
        "not_applicable": [{"property_id": p, "reason": PENDING} for p in ALL if p not in CHECKS],
        "notes": "Technique family: runtime monitoring. Every check exits 0 (held on what was explored), 1 + VIOLATION line, or 2 + INCONCLUSIVE line (deciding monitor not reached / worker failure). Known findings: /verif/known_findings.json (open entries print KNOWN-FINDING; fixed entries suppress nothing).",
    }
    with open("/verif/MANIFEST.json", "w") as f:
        json.dump(m, f, indent=1)
        f.write("\n")


if __name__ == "__main__":
    main()
