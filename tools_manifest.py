#!/usr/bin/env python3
"""Maintenance helper (not used by checks): regenerate MANIFEST.json from the
table below.  Properties without an entry in CHECKS are listed under
not_applicable with the reason in PENDING."""
import json

CHECKS = {
    "C06": dict(
        category="exploration",
        technique="runtime monitor on recorded client-boundary history (exactly-one tagged reply, virtual-time latency, watchdog-path log monitor)",
        text=("Exploration: generated commands x argument classes x session/mailbox states are sent to the real per-user server running in process "
              "under a virtual clock; a monitor on each session's byte stream asserts exactly one tagged reply with the command's tag, no late bytes, "
              "virtual latency < 60 s, the command-watchdog path not taken, and that the session answers a following NOOP unless BYE was sent. "
              "Held means: on the commands listed in the evidence file."),
        note="virtual clock replaces wall time (thread work costs zero virtual time); the in-memory stream replaces the loopback TCP hop between the two asimap processes; strict response parser (wire.py) decodes the stream",
        design="DESIGN.md section 4 C06",
    ),
}

PENDING = "check under construction in this round; not yet validated against the unchanged tree and seeded changes"

ALL = ["C%02d" % i for i in range(1, 21)]


def main():
    checks = []
    for pid in ALL:
        if pid not in CHECKS:
            continue
        c = CHECKS[pid]
        checks.append({
            "property_id": pid,
            "quick_cmd": f"./check {pid} --tier quick",
            "thorough_cmd": f"./check {pid} --tier thorough",
            "evidence_file": f"/verif/evidence/{pid}.json",
            "replay_cmd_template": f"./check {pid} --replay {{path}}",
            "engine": c.get("engine", "rig+vloop"),
            "level_claimed": {"category": c["category"], "text": c["text"], "design_ref": c["design"]},
            "level_note": c["note"],
            "technique": c["technique"],
        })
    m = {
        "version": 1,
        "setup_cmd": "/venv/bin/python -B -c \"import sys; sys.path.insert(0,'/repo'); sys.path.insert(0,'/verif'); import asimap, asimap_verif.rig, asimap_verif.wire; print('asimap-verif ok')\"",
        "hooks": {
            "guard": "ASIMAP_VERIF",
            "enable": "no source hooks exist: checks import /repo's working tree (PYTHONPATH=/repo) and observe it through stream objects, audit hooks, the sqlite trace callback and a custom event loop",
            "baseline_off_cmd": "cd /repo && /venv/bin/python -m pytest -ra -q -p no:cacheprovider --timeout=900 --continue-on-collection-errors",
            "source_commits": [],
            "add_only": True,
        },
        "engines": [
            {"name": "rig+vloop", "path": "asimap_verif/rig.py", "serves_properties": sorted(CHECKS), "kind_free_text": "real per-user server in process, sessions at the byte boundary, virtual-time event loop, audit-hook guard + mount-namespace jail"},
            {"name": "wire", "path": "asimap_verif/wire.py", "serves_properties": sorted(CHECKS), "kind_free_text": "strict independent IMAP response / POP3 reply parser (oracle for C07, decoder for all)"},
        ],
        "checks": checks,
        "not_applicable": [{"property_id": p, "reason": PENDING} for p in ALL if p not in CHECKS],
        "notes": "Technique family: runtime monitoring. Every check exits 0 (held on what was explored), 1 + VIOLATION line, or 2 + INCONCLUSIVE line (deciding monitor not reached / worker failure). Known findings: /verif/known_findings.json (open entries print KNOWN-FINDING; fixed entries suppress nothing).",
    }
    with open("/verif/MANIFEST.json", "w") as f:
        json.dump(m, f, indent=1)
        f.write("\n")


if __name__ == "__main__":
    main()
