"""C04 -- message flags follow IMAP STORE/FETCH semantics exactly.
Monitor: flag model per (mailbox, uid) compared with the command's own FETCH
data, other sessions' notifications at their next synchronisation point, an
observer (FETCH FLAGS or SEARCH probes), SEARCH <flag key>, and the on-disk
.mh_sequences read with the stdlib MH parser."""
import itertools

from .c13 import sk_delivery_while_an_expunge_is_running
from .hist_base import HistProp, module_api

PROP = "C04"
ORDINARY = ["\\Seen", "\\Flagged", "\\Answered", "\\Draft", "\\Deleted", "$Forwarded", "NonJunk", "a-b.c", "123", "kw1", "\\seen", "\\FLAGGED", "\\deleted", "x:y"]
COLLISION = ["unseen", "Seen", "replied", "flagged", "Deleted", "Draft", "Recent", "cur"]
COLLISION_RELATED = set(COLLISION) | {"\\Seen", "\\Answered", "\\Flagged", "\\Deleted", "\\Draft", "\\Recent"}


async def sk_all_single_message_flag_sets(hp, w, rnd, ctx):
    """Every initial flag assignment of one message (5 system flags + one
    keyword: 64 sets), checked by FETCH, SEARCH and on disk."""
    a = w.session()
    flags = ["\\Seen", "\\Answered", "\\Flagged", "\\Deleted", "\\Draft", "kw1"]
    await w.op_create(a, "fs")
    for r in range(len(flags) + 1):
        for sub in itertools.combinations(flags, r):
            await w.op_append(a, "fs", flags=list(sub))
    w.stats["initial_flag_sets"] += 64
    await w.observe(names=["fs"])
    w.check_disk("fs")
    await w.op_select(a, "fs")
    await w.ensure_uids_known(a)
    for key in ("SEEN", "UNSEEN", "ANSWERED", "FLAGGED", "DELETED", "DRAFT", "KEYWORD kw1", "UNKEYWORD kw1"):
        await w.op_search_flag(a, key)


async def sk_store_semantics(hp, w, rnd, ctx):
    a = w.session()
    b = w.session()
    for i in range(4):
        await w.op_append(a, "INBOX", flags=[["\\Seen"], [], ["\\Flagged", "kw1"], ["\\Deleted"]][i])
    await w.op_select(a, "INBOX")
    await w.op_select(b, "INBOX")
    await w.ensure_uids_known(a)
    await w.ensure_uids_known(b)
    await w.op_store(a, [1, 2], "add", ["\\Flagged", "$Forwarded"])
    await w.op_noop(b)
    await w.op_store(a, [2, 3], "remove", ["\\Flagged", "kw1"], silent=True)
    await w.op_store(b, [1], "replace", ["\\Answered"])
    await w.op_noop(a)
    await w.op_noop(b)
    us = [m.uid for m in w.boxes["INBOX"].msgs]
    await w.op_store(a, [us[0], us[3], us[3] + 9], "replace", ["\\Seen", "NonJunk"], uid_mode=True)
    await w.op_store(a, [4], "remove", ["\\SEEN"])
    await w.op_store(a, [3], "add", ["\\seen"])
    await w.op_noop(b)
    await w.observe()
    w.check_disk("INBOX")
    # \Recent can neither be set nor cleared by a client
    r0 = await a.s.cmd("SEARCH RECENT")
    await w.op_store(a, [1], "add", ["\\Recent"])
    await w.op_store(a, [1, 2], "remove", ["\\Recent"])
    await w.op_store(a, [2], "replace", ["\\Recent", "\\Seen"])
    r1 = await a.s.cmd("SEARCH RECENT")
    s0 = [x.data for x in r0.untagged("SEARCH")]
    s1 = [x.data for x in r1.untagged("SEARCH")]
    w.stats["recent_before_after_store"] += 1
    if s0 != s1:
        w.viol(["C04"], "recent-changed-by-store", f"SEARCH RECENT {s0} -> {s1}")
    await w.observe()
    # implicit \Seen of a non-PEEK body fetch
    await w.op_fetch(a, [2], "UID BODY.PEEK[]")
    await w.op_fetch(a, [2], "UID BODY[TEXT]", sets_seen=True)
    await w.op_noop(b)
    await w.observe()
    w.check_disk("INBOX")


async def sk_collision_keywords(hp, w, rnd, ctx):
    """Keywords spelled like MH sequence names."""
    a = w.session()
    for i in range(3):
        await w.op_append(a, "INBOX")
    await w.op_select(a, "INBOX")
    await w.ensure_uids_known(a)
    for kw in COLLISION:
        await w.op_store(a, [1], "add", [kw])
        await w.observe()
        w.check_disk("INBOX")
        await w.op_store(a, [1], "remove", [kw])
        await w.observe()


async def sk_store_over_mixed_recent(hp, w, rnd, ctx):
    """One STORE over messages of which some are still \\Recent and some no
    longer are (in both orders): \\Recent can be neither set nor cleared by it."""
    a = w.session()
    b = w.session()
    for i in range(6):
        await w.op_append(a, "INBOX", flags=rnd.choice([None, ["\\Seen"]]))
    await w.op_select(a, "INBOX")
    # looking at single messages ends their \\Recent-ness for this server
    await w.op_fetch(a, [3], "FLAGS")
    await w.op_fetch(a, [5], "UID FLAGS")
    await w.op_select(b, "INBOX", examine=True)
    for verb, fl in (("replace", ["\\Flagged"]), ("replace", ["kw1", "\\Answered"]), ("add", ["\\Draft"]), ("remove", ["\\Flagged"]), ("replace", [])):
        await w.op_store(a, rnd.choice([[1, 2, 3], [2, 3, 4, 5, 6], [3, 4], [1, 2, 3, 4, 5, 6]]), verb, fl, silent=rnd.random() < 0.3)
        await w.op_noop(b)
        w.check_disk("INBOX")
    us = [m.uid for m in w.boxes["INBOX"].msgs if m.uid is not None]
    if len(us) >= 5:
        await w.op_store(a, [us[1], us[2], us[4]], "replace", ["\\Seen"], uid_mode=True)
    await w.observe()
    w.check_disk("INBOX")


async def sk_flags_survive_a_pack(hp, w, rnd, ctx):
    """Messages with distinct flag sets, expunges from the middle so that the
    folder qualifies for packing (threshold lowered for this script), idle time
    so that the management task packs: every message keeps exactly its flags,
    in FETCH, SEARCH and on disk, and a STORE after the pack lands on the
    message it addresses."""
    a = w.session()
    b2 = w.session()
    sets = [["\\Seen"], ["\\Flagged"], [], ["kw1", "\\Seen"], ["\\Answered"], ["\\Draft", "\\Seen"], ["$Forwarded"], ["\\Seen", "\\Flagged", "kw1"], [], ["\\Seen"], ["NonJunk"], ["\\Answered", "\\Seen"]]
    for fl in sets:
        await w.op_append(a, "INBOX", flags=fl)
    await w.op_select(a, "INBOX")
    await w.op_select(b2, "INBOX")
    await w.op_store(a, [2, 3, 6, 9], "add", ["\\Deleted"])
    await w.op_expunge(a)
    await w.op_noop(b2)
    await w.observe()
    packs0 = w.stats.get("packs", 0)
    for _ in range(6):
        await w.rig.advance(5)  # idle: the management task may pack now
    await w.op_noop(a)
    await w.op_noop(b2)
    await w.observe()
    w.check_disk("INBOX")
    for key in ("SEEN", "FLAGGED", "ANSWERED", "KEYWORD kw1", "UNSEEN", "DRAFT"):
        await w.op_search_flag(a, key)
    await w.op_store(a, [3], "add", ["\\Flagged"])
    await w.op_store(b2, [5, 6], "replace", ["kw1"])
    await w.op_noop(a)
    await w.observe()
    w.check_disk("INBOX")
    await w.restart()
    await w.observe()


async def sk_flags_follow_messages_through_rename_inbox(hp, w, rnd, ctx):
    """INBOX whose message numbers have gaps (messages were expunged from the
    middle), every message with its own flag set; RENAME INBOX moves them: in
    the new mailbox each message has exactly its flags (FETCH, SEARCH, on disk),
    what is appended there afterwards has only its own, and the same after a
    restart."""
    a = w.session()
    b2 = w.session()
    sets = [["\\Seen", "\\Flagged", "\\Answered", "NonJunk"], ["\\Deleted"], ["\\Answered", "kw1"], [], ["\\Flagged", "\\Seen"], ["\\Deleted"], ["\\Draft"], ["$Forwarded", "\\Seen"], ["kw1"]]
    for fl in sets:
        await w.op_append(a, "INBOX", flags=fl)
    await w.op_select(a, "INBOX")
    await w.op_select(b2, "INBOX")
    await w.op_expunge(a)  # takes 2 and 6: the keys are 1,3,4,5,7,8,9 now
    await w.op_noop(b2)
    await w.observe()
    await w.op_rename(a, "INBOX", "saved")
    await w.observe()
    w.check_disk("saved")
    await w.op_select(a, "saved")
    await w.ensure_uids_known(a)
    for key in ("SEEN", "UNSEEN", "ANSWERED", "FLAGGED", "DRAFT", "KEYWORD kw1", "KEYWORD $Forwarded"):
        await w.op_search_flag(a, key)
    await w.op_append(b2, "saved")
    await w.op_append(b2, "saved", flags=["\\Flagged"])
    # what arrives in the emptied INBOX takes the message numbers the moved messages had: it has its own flags only
    for fl in (None, [], ["\\Seen"], None, ["kw1"]):
        await w.op_append(b2, "INBOX", flags=fl)
    w.deliver("INBOX", 2, unseen=[True, False])
    await w.rig.advance(6)
    await w.op_noop(a)
    await w.observe()
    w.check_disk("saved")
    w.check_disk("INBOX")
    await w.op_store(a, [2, 3], "add", ["NonJunk"])
    await w.observe()
    await w.restart()
    await w.observe()
    w.check_disk("saved")


class C04(HistProp):
    prop = PROP
    names = ["INBOX", "other"]
    pack_limits = [100, 100, 100, 100, 4, 100, 6]
    # (the last one is C13's: the flags of what arrives while an EXPUNGE/MOVE/CLOSE is rewriting .mh_sequences are flags too)
    skeletons = [sk_all_single_message_flag_sets, sk_store_semantics, sk_collision_keywords, sk_store_over_mixed_recent, sk_flags_survive_a_pack, sk_flags_follow_messages_through_rename_inbox,
                 sk_delivery_while_an_expunge_is_running]
    weights = {"store": 16, "uid_store": 10, "store_del": 3, "fetch": 6, "fetch_body": 6, "uid_fetch": 4, "append": 8, "copy": 5, "uid_copy": 2, "move": 2, "noop": 10,
               "search_flag": 8, "deliver": 3, "expunge": 3, "idle": 2, "examine": 2, "deliver_stalled": 2, "advance": 2, "rename_inbox": 1}
    opts = {"flag_pool": ORDINARY, "examine_prob": 0.1, "rename_targets": ["saved", "saved2"]}
    observer_cadence = [1, 2, 0]
    initial = (1, 6)
    nsessions = (2, 3)

    async def setup(self, w, rnd, ctx):
        if ctx["script"] % 7 == 3:
            w.opts["flag_pool"] = ORDINARY + COLLISION
            w.stats["collision_histories"] += 1
        if ctx["script"] % 2:
            w.flag_mode = "search"
        await super().setup(w, rnd, ctx)

    async def post_step(self, w, rnd):
        for nm in list(w.boxes):
            if not w.boxes[nm].noselect:
                w.check_disk(nm)

    def nontrivial(self, w):
        s = w.stats
        kinds = sum(1 for k in ("store:add", "store:remove", "store:replace") if s[k])
        return kinds >= 2 and (s["cross_session_flag_checks"] + s["store_own_flags_compared"]) >= 2


def classify(wit):
    d = (wit.get("data") or {})
    used = set(d.get("flags_used") or [])
    diff = set(d.get("extra") or []) | set(d.get("missing") or [])
    if wit.get("kind") in ("flags-differ", "mh-sequences-differ-from-flags", "search-disagrees-with-flags", "announced-flags-stale", "store-recent-accepted",
                           "seen-and-unseen-together", "seen-unseen-not-complementary-on-disk", "recent-changed-by-store") and used & set(COLLISION):
        if not diff or diff <= COLLISION_RELATED:
            return "C04-mh-sequence-name-aliases-system-flag"
    if wit.get("kind") == "store-set-recent" and "Recent" in set(d.get("store_flags") or []):
        # the STORE itself named the keyword `Recent`, which aliases the MH sequence of that name
        return "C04-mh-sequence-name-aliases-system-flag"
    return None


hp = C04()
plan, run_shard, replay_specs, _finish = module_api(
    hp, quick=128, thorough=6000, classify=classify,
    rule=("one case = one sequence of STORE/FETCH/APPEND/COPY/SEARCH/delivery over 1-3 sessions with flag sets drawn from system flags in mixed case, "
          "ordinary keyword atoms and (one history in seven, plus a forced skeleton) keywords spelled like MH sequence names; one skeleton enumerates all "
          "64 initial flag sets of a message; non-trivial = at least two different STORE actions and at least two own-response or cross-session "
          "flag comparisons; distinct = hash of the operation sequence with numbers abstracted"),
    floors={"stores": 200, "store_own_flags_compared": 100, "cross_session_flag_checks": 20, "disk_flag_compares": 500, "flag_search_compares": 20, "initial_flag_sets": 64},
    assumptions=["witness data (flags used, extra/missing) are recorded by the monitor for mechanism classification"],
)


# ---------------------------------------------------------------- scheduled tier
# Flag changes racing removals and each other under the deterministic scheduler.
# Every rig session keeps, per position of its view, the flags it was last told
# (own STORE/FETCH responses and notifications alike, EXPUNGEs applied in the
# order received); at quiescence, after one more NOOP, that belief must be what
# FETCH 1:* (FLAGS) says: "every change ... reaches every other selected session
# by its next synchronisation point, and what was reported agrees with a
# subsequent FETCH FLAGS".
SCHED_SETS = [
    [("INBOX", ["EXPUNGE", "NOOP"]), ("INBOX", ["UID STORE 5 +FLAGS (\\Flagged)", "NOOP"])],
    [("INBOX", ["EXPUNGE", "NOOP"]), ("INBOX", ["STORE 5 +FLAGS (\\Flagged)", "NOOP"]), ("INBOX", ["NOOP"])],
    [("INBOX", ["UID EXPUNGE 2", "NOOP"]), ("INBOX", ["UID STORE 3:5 +FLAGS.SILENT (kwx)", "NOOP"]), ("INBOX", ["UID FETCH 1:* (FLAGS)", "NOOP"])],
    [("INBOX", ["UID STORE 1:* -FLAGS (\\Deleted)", "NOOP"]), ("INBOX", ["UID STORE 1,3 +FLAGS (\\Deleted)", "EXPUNGE"]), ("INBOX", ["NOOP", "NOOP"])],
    [("INBOX", ["UID STORE 1 FLAGS (\\Seen)", "NOOP"]), ("INBOX", ["UID STORE 1 FLAGS (\\Answered)", "NOOP"]), ("INBOX", ["UID FETCH 1 (FLAGS)", "NOOP"])],
    [("INBOX", ["UID FETCH 3 (BODY[])", "NOOP"]), ("INBOX", ["UID STORE 3 -FLAGS (\\Seen)", "NOOP"]), ("INBOX", ["NOOP"])],
    [("INBOX", ["UID MOVE 2 other", "NOOP"]), ("INBOX", ["UID STORE 3:4 +FLAGS (kwx)", "NOOP"]), ("INBOX", ["NOOP"])],
    [("INBOX", ["CLOSE"]), ("INBOX", ["UID STORE 5 +FLAGS (\\Flagged)", "NOOP"]), ("INBOX", ["NOOP", "NOOP"])],
    [("INBOX", ["UID STORE 1:5 +FLAGS (\\Flagged)", "NOOP"]), ("INBOX", ["EXPUNGE", "NOOP"])],
    [("INBOX", ["UID STORE 1:* FLAGS (kwx)", "NOOP"]), ("INBOX", ["UID STORE 3 +FLAGS (\\Deleted)", "EXPUNGE", "NOOP"]), ("INBOX", ["EXPUNGE", "NOOP"])],
    [("INBOX", ["UID FETCH 1:4 (FLAGS)", "NOOP"]), ("INBOX", ["UID FETCH 5 (FLAGS)", "NOOP"]), ("INBOX", ["UID STORE 1:4 +FLAGS (\\Flagged)", "NOOP"])],
    [("pop3", ["DELE 1", "DELE 3", "QUIT"]), ("INBOX", ["UID STORE 1:* -FLAGS (\\Deleted)", "NOOP"]), ("INBOX", ["UID FETCH 1:* (FLAGS)", "NOOP"])],
    # nothing is flagged \\Deleted when the EXPUNGE arrives; a STORE that sets the flag is under way
    [("#", ["nodeleted"]), ("INBOX", ["UID STORE 3 +FLAGS (\\Deleted)", "NOOP"]), ("INBOX", ["EXPUNGE", "NOOP"]), ("INBOX", ["NOOP", "NOOP"])],
    [("#", ["nodeleted"]), ("INBOX", ["UID STORE 2:4 +FLAGS (\\Deleted \\Flagged)", "NOOP"]), ("INBOX", ["CLOSE"]), ("INBOX", ["UID FETCH 1:* (FLAGS)", "NOOP"]), ("INBOX", ["EXPUNGE", "NOOP"])],
]

_plan_hist, _run_hist = plan, run_shard


def plan(tier, seed, scale):
    specs = _plan_hist(tier, seed, scale)
    n = int((40 if tier == "quick" else 500) * scale)
    shards = 8 if tier == "quick" else 16
    for s in range(shards):
        specs.append({"prop": PROP, "tier": tier, "seed": seed, "shard": 100 + s, "mode": "sched", "only_flags": True, "sets": SCHED_SETS,
                      "scripts": list(range(n))[s::shards], "nsched": 5 if tier == "quick" else 25})
    return specs


def run_shard(spec):
    if spec.get("mode") == "sched":
        from . import c01

        return c01.run_sched_shard(spec)
    return _run_hist(spec)


def finish(tier, seed, cases, results, errors, wall):
    # carry structured data of the witness to the classifier
    for c in cases:
        w = c.get("witness")
        if w and "data" not in w:
            w["data"] = {}
    return _finish(tier, seed, cases, results, errors, wall)
