"""C18 -- no access without the right password; brute-force throttling holds.

Oracle A (gate): through the real IMAPSubprocessInterface.unauthenticated /
POP3 handle_authorization, a recorder in place of get_and_connect_subprocess
and an audit hook on everything below the mail roots: nothing is reached
before a LOGIN / USER+PASS with the current password.
Oracle B (throttle): a reference automaton written from the property's
sentence (DESIGN appendix C) must agree, at every step of exhaustive timed
attempt sequences, with the real check_allow/login_failed driven by a harness
clock installed as asimap.throttle.time, and end-to-end with do_login/_do_pass."""
import asyncio
import itertools
import os
import sys
import time as _time
from collections import Counter

from .. import common
from ..common import Case, HELD, INCONCLUSIVE, VIOLATED
from ..gen import rng
from ..rig import MemWriter, run_case
from . import base

PROP = "C18"
LEVEL = "exploration"


class Clock:
    def __init__(self):
        self.t = 1_000_000.0

    def time(self):
        return self.t

    def monotonic(self):
        return self.t


# ------------------------------------------------ reference automaton
class Auto:
    def __init__(self, p_user, p_addr, interval):
        self.pu, self.pa, self.iv = p_user, p_addr, interval
        self.chain = {}
        self.last = {}

    def attempt(self, u, a, ok, t):
        for k in (("u", u), ("a", a)):
            if self.chain.get(k, 0) > 0 and t - self.last[k] > self.iv:
                self.chain[k] = 0
        blocked = self.chain.get(("u", u), 0) > self.pu or self.chain.get(("a", a), 0) > self.pa
        if blocked:
            return "REFUSED"
        if ok:
            return "AUTHENTICATED"
        for k in (("u", u), ("a", a)):
            self.chain[k] = self.chain.get(k, 0) + 1
            self.last[k] = t
        return "REJECTED"

    def snapshot(self):
        return (dict(self.chain), dict(self.last))

    def restore(self, s):
        self.chain, self.last = dict(s[0]), dict(s[1])

    def boundary(self, u, a, t):
        """True if t sits exactly on the interval boundary of a live chain
        (the sentence does not fix that instant)."""
        for k in (("u", u), ("a", a)):
            if self.chain.get(k, 0) > 0 and abs((t - self.last[k]) - self.iv) < 1e-6:
                return True
        return False


def throttle_function_level(spec):
    """Exhaustive DFS over timed attempt sequences; the real functions are
    called in the order do_login calls them."""
    import asimap.throttle as T

    clock = Clock()
    T.time = clock
    counts = Counter()
    users, addrs, gaps, maxlen = spec["users"], spec["addrs"], spec["gaps"], spec["maxlen"]
    alphabet = [(u, a, g, ok) for u in users for a in addrs for g in gaps for ok in (False, True)]
    prefix = spec.get("prefix", [])
    auto = Auto(T.MAX_USER_ATTEMPTS, T.MAX_ADDR_ATTEMPTS, T.PURGE_TIME)
    viol = []
    crossed = 0
    states = set()
    samples = []

    def real_attempt(u, a, ok):
        if not T.check_allow(u, a):
            return "REFUSED"
        if ok:
            return "AUTHENTICATED"
        T.login_failed(u, a)
        return "REJECTED"

    T.BAD_USER_AUTHS.clear()
    T.BAD_IP_AUTHS.clear()
    t0 = clock.t

    def step(sym, path):
        u, a, g, ok = sym
        clock.t += g
        if auto.boundary(u, a, clock.t):
            clock.t -= g
            return None
        exp = auto.attempt(u, a, ok, clock.t)
        got = real_attempt(u, a, ok)
        counts["steps"] += 1
        counts["outcome:" + exp] += 1
        if exp != got:
            viol.append((path + [sym], exp, got))
        return exp

    def dfs(depth, path, crossed_flag):
        nonlocal crossed
        if depth == maxlen:
            counts["sequences"] += 1
            if crossed_flag:
                crossed += 1
            if len(samples) < 3 and crossed_flag:
                samples.append([list(s) for s in path])
            return
        for sym in alphabet:
            sa = auto.snapshot()
            su, si, st = dict(T.BAD_USER_AUTHS), dict(T.BAD_IP_AUTHS), clock.t
            r = step(sym, path)
            if r is not None:
                states.add((tuple(sorted(auto.chain.items())), r))
                dfs(depth + 1, path + [sym], crossed_flag or r == "REFUSED")
            auto.restore(sa)
            T.BAD_USER_AUTHS.clear()
            T.BAD_USER_AUTHS.update(su)
            T.BAD_IP_AUTHS.clear()
            T.BAD_IP_AUTHS.update(si)
            clock.t = st
            if len(viol) > 20:
                return

    ok_prefix = True
    p = []
    for sym in prefix:
        r = step(tuple(sym), p)
        if r is None:
            ok_prefix = False
            break
        p.append(tuple(sym))
    if ok_prefix:
        dfs(len(prefix), p, any(False for _ in p))
    T.time = _time
    cases = []
    key = common.h(spec.get("prefix", []))
    sample = {"alphabet": f"{len(users)} user(s) x {len(addrs)} address(es) x gaps {gaps} x right/wrong", "maxlen": maxlen, "prefix": prefix, "sequences": counts["sequences"], "crossing_sequences": crossed,
              "examples": samples}
    if viol:
        path, exp, got = viol[0]
        cases.append(Case.make("thr:" + key, VIOLATED, spec=spec, nontrivial=True, key=key, sample=sample,
                               witness={"kind": "throttle-disagrees-with-reference", "detail": f"after {[list(s) for s in path]}: reference {exp}, real {got}", "n": len(viol)}))
    else:
        cases.append(Case.make("thr:" + key, HELD, spec=spec, nontrivial=crossed > 0, key=key, sample=sample))
    counts["throttle_sequences"] = counts.pop("sequences", 0)
    counts["throttle_steps"] = counts.pop("steps", 0)
    counts["crossing_sequences"] = crossed
    counts["automaton_states"] = len(states)
    cases[0]["evaluated"] = counts["throttle_sequences"]
    cases[0]["crossed"] = crossed
    return {"cases": cases, "counts": dict(counts)}


# ---------------------------------------------------------- gate (A)
PW = "correct horse"
ACCOUNTS = {}


def setup_accounts(root):
    """Password file + mail roots with canaries."""
    import asimap.auth as A
    from asimap.hashers import get_hasher, make_password

    lines = []
    sc = get_hasher("scrypt")
    specs = {
        "alice": sc.encode(PW, sc.salt()),
        "bob": make_password(PW),  # default hasher
        "carol": "!" + "x" * 40,
        "dave": "",
        "erin": "notahash",
        "frank": "argon2$argon2id$v=19$m=102400,t=2,p=8$c29tZXNhbHQ$RdescudvJCsgt3ub+b+dWRWJTmaaJObG",
        "gina": sc.encode("", sc.salt()),  # the account's password is the empty string hash of ""
    }
    # work factors other than this server's default (hashes written by another version of the companion tools)
    pb = get_hasher("pbkdf2_sha256")
    specs["hank"] = pb.encode(PW, pb.salt(), pb.iterations + 1000)
    specs["ivan"] = pb.encode(PW, pb.salt(), 1000)
    for u, hsh in specs.items():
        d = os.path.join(root, "mail-" + u)
        os.makedirs(os.path.join(d, "inbox"), exist_ok=True)
        with open(os.path.join(d, "inbox", "1"), "w") as f:
            f.write(f"Subject: CANARY-{u}\n\nsecret of {u}\n")
        lines.append(f"{u}:{hsh}:{d}")
    pw = os.path.join(root, "passwords.txt")
    with open(pw, "w") as f:
        f.write("\n".join(lines) + "\n")
    A.PW_FILE_LOCATION = pw
    A.PW_FILE_LAST_TIMESTAMP = 0.0
    A.USERS.clear()
    return {u: os.path.join(root, "mail-" + u) for u in specs}


_AUDIT = {"roots": [], "hits": [], "on": False, "installed": False}


def _audit(ev, args):
    if not _AUDIT["on"]:
        return
    if ev in ("open", "os.listdir", "os.scandir", "os.mkdir", "os.remove", "os.rename", "os.rmdir", "sqlite3.connect", "os.utime", "os.chmod", "os.symlink"):
        for a in args[:2]:
            if isinstance(a, (str, bytes, os.PathLike)):
                p = os.fsdecode(a)
                if any(p.startswith(r) for r in _AUDIT["roots"]):
                    _AUDIT["hits"].append((ev, p))


class FakeServer:
    debug = False
    log_config = None
    trace = False
    trace_dir = None


IMAP_PREAUTH_CMDS = [
    "CAPABILITY", "NOOP", "ID NIL", "NAMESPACE", "IDLE", "SELECT inbox", "EXAMINE inbox", "CREATE x", "DELETE inbox", "RENAME inbox y", "SUBSCRIBE inbox", "UNSUBSCRIBE inbox",
    'LIST "" *', 'LSUB "" *', "STATUS inbox (MESSAGES)", "APPEND inbox {1+}\r\nx", "CHECK", "CLOSE", "EXPUNGE", "SEARCH ALL", "FETCH 1 BODY[]", "STORE 1 +FLAGS (\\Deleted)",
    "COPY 1 inbox", "MOVE 1 inbox", "UID FETCH 1 BODY[]", "UNSELECT", "AUTHENTICATE PLAIN", "garbage", "UID EXPUNGE 1",
]


def login_variants(user, rnd):
    return [("wrong", "LOGIN %s wrongpw" % user), ("empty", 'LOGIN %s ""' % user), ("prefix", 'LOGIN %s "correct"' % user), ("suffix", 'LOGIN %s "correct horse "' % user),
            ("case", 'LOGIN %s "Correct Horse"' % user), ("literal-wrong", "LOGIN %s {5+}\r\nhorse" % user), ("nul-ish", 'LOGIN %s "correct horse\\\\"' % user)]


async def gate_imap(loop, ctx):
    import asimap.server as S
    import asimap.throttle as T
    from asimap.client import ClientState

    k = ctx["script"]
    rnd = rng(ctx["seed"], "c18gate", k)
    counts = ctx["counts"]
    roots = setup_accounts(ctx["dir"])
    _AUDIT["roots"] = list(roots.values())
    if not _AUDIT["installed"]:
        sys.addaudithook(_audit)
        _AUDIT["installed"] = True
    cases = []
    nseq = ctx.get("nseq", 40)
    users_bad = ["carol", "dave", "erin", "frank", "nosuchuser"]
    for i in range(nseq):
        T.BAD_USER_AUTHS.clear()
        T.BAD_IP_AUTHS.clear()
        connected = []
        reader = asyncio.StreamReader()
        cw = MemWriter("client", loop)
        c = S.IMAPClient(FakeServer(), "n", f"10.0.0.{i % 200}", 5, reader, cw)
        si = c.subprocess_intf

        async def rec(user, connected=connected):
            connected.append(user.username)

        si.get_and_connect_subprocess = rec
        _AUDIT["hits"] = []
        _AUDIT["on"] = True
        seq = []
        L = rnd.choice([1, 2, 3, 3, 4])
        expect_auth = None
        for j in range(L):
            r = rnd.random()
            if r < 0.5:
                seq.append(("cmd", rnd.choice(IMAP_PREAUTH_CMDS)))
            elif r < 0.8:
                u = rnd.choice(["alice", "alice", "gina"] + users_bad)
                kind, text = rnd.choice(login_variants(u, rnd))
                if u == "gina" and kind == "empty":
                    seq.append(("goodlogin", text, u))  # gina's password *is* the empty string
                else:
                    seq.append(("badlogin:" + kind + ":" + u, text))
            else:
                u = rnd.choice(["alice", "alice", "alice", "bob"] if i % 10 == 0 else ["alice"])
                seq.append(("goodlogin", rnd.choice(['LOGIN %s "%s"' % (u, PW), "LOGIN %s {%d+}\r\n%s" % (u, len(PW), PW)]), u))
        problems = []
        authed = False
        for n_, item in enumerate(seq):
            tag = f"g{n_}"
            before = len(cw.buf)
            keep = await si.message((tag + " " + item[1]).encode("latin-1"))
            out = bytes(cw.buf[before:]).decode("latin-1")
            counts["gate_cmds"] += 1
            st = str(si.client_handler.state.value if hasattr(si.client_handler.state, "value") else si.client_handler.state)
            if item[0] == "goodlogin" and not authed:
                counts["good_logins"] += 1
                if not connected or connected[-1] != item[2] or st != "authenticated" or f"{tag} OK" not in out:
                    problems.append(("right-password-did-not-authenticate", f"{item[1]!r}: state={st} connected={connected} reply={out[:120]!r}"))
                authed = True
                break
            else:
                if item[0].startswith("badlogin"):
                    counts["bad_logins"] += 1
                if connected:
                    problems.append(("subprocess-reached-without-password", f"after {item[1]!r}: connected as {connected}"))
                    break
                if st != "not_authenticated":
                    problems.append(("state-changed-without-password", f"after {item[1]!r}: state {st}"))
                    break
                if f"{tag} OK" in out and item[0].startswith("badlogin"):
                    problems.append(("bad-login-answered-ok", f"{item[1]!r}: {out[:100]!r}"))
                    break
                if "CANARY" in out or "secret of" in out:
                    problems.append(("data-leaked-before-login", out[:200]))
                    break
                if _AUDIT["hits"]:
                    problems.append(("mail-root-touched-before-login", f"after {item[1]!r}: {_AUDIT['hits'][:3]}"))
                    break
            if not keep:
                break
        _AUDIT["on"] = False
        cid = f"gate{k}.{i}"
        sample = {"protocol": "imap", "sequence": [s[1][:60] for s in seq]}
        nontriv = any(s[0].startswith("badlogin") for s in seq) or any(s[0] == "cmd" and s[1].split()[0] in ("SELECT", "FETCH", "LIST", "STATUS", "APPEND", "COPY", "UID", "SEARCH") for s in seq)
        if problems:
            cases.append(Case.make(cid, VIOLATED, spec=ctx["spec"], nontrivial=True, key=common.h(sample), sample=sample, witness={"kind": problems[0][0], "detail": problems[0][1], "sequence": sample["sequence"]}))
        else:
            cases.append(Case.make(cid, HELD, spec=ctx["spec"], nontrivial=nontriv, key=common.h(sample), sample=sample))
    # POP3
    import asimap.pop3_server as P

    for i in range(max(4, nseq // 3)):
        T.BAD_USER_AUTHS.clear()
        T.BAD_IP_AUTHS.clear()
        connected = []
        cw = MemWriter("pclient", loop)
        pc = P.POP3Client(FakeServer(), "p", f"10.1.0.{i % 200}", 6, asyncio.StreamReader(), cw)
        si = pc.subprocess_intf

        async def rec2(user, connected=connected):
            connected.append(user.username)

        si.get_and_connect_subprocess = rec2
        _AUDIT["hits"] = []
        _AUDIT["on"] = True
        seq = []
        for j in range(rnd.randint(1, 5)):
            seq.append(rnd.choice(["STAT", "LIST", "RETR 1", "DELE 1", "UIDL", "TOP 1 1", "NOOP", "RSET", "CAPA", "PASS " + PW, "USER alice", "USER carol", "USER nosuch", "PASS wrong", "PASS", "USER", "PASS correct", "frob"]))
        if rnd.random() < 0.5:
            seq += ["USER alice", "PASS " + PW]
        problems = []
        user_set = None
        for n_, line in enumerate(seq):
            before = len(cw.buf)
            keep = await si.message(line.encode("latin-1"))
            out = bytes(cw.buf[before:]).decode("latin-1")
            counts["gate_cmds"] += 1
            word = line.split()[0].upper()
            if word == "USER" and len(line.split()) > 1:
                user_set = line.split(None, 1)[1]
            good = word == "PASS" and user_set == "alice" and line == "PASS " + PW
            if good and keep:
                counts["good_logins"] += 1
                if connected != ["alice"] or si.state != "transaction" or not out.startswith("+OK"):
                    problems.append(("right-password-did-not-authenticate", f"pop3 {seq[:n_ + 1]}: state={si.state} connected={connected} reply={out[:80]!r}"))
                break
            if connected:
                problems.append(("subprocess-reached-without-password", f"pop3 after {seq[:n_ + 1]}: {connected}"))
                break
            if si.state != "authorization":
                problems.append(("state-changed-without-password", f"pop3 after {line!r}: {si.state}"))
                break
            if _AUDIT["hits"]:
                problems.append(("mail-root-touched-before-login", f"pop3 after {line!r}: {_AUDIT['hits'][:3]}"))
                break
            if word in ("STAT", "LIST", "RETR", "DELE", "UIDL", "TOP", "NOOP", "RSET") and out.startswith("+OK"):
                problems.append(("transaction-command-answered-ok-before-login", f"{line!r}: {out[:60]!r}"))
                break
            if not keep:
                break
        _AUDIT["on"] = False
        cid = f"gate{k}.p{i}"
        sample = {"protocol": "pop3", "sequence": seq}
        if problems:
            cases.append(Case.make(cid, VIOLATED, spec=ctx["spec"], nontrivial=True, key=common.h(sample), sample=sample, witness={"kind": problems[0][0], "detail": problems[0][1], "sequence": seq}))
        else:
            cases.append(Case.make(cid, HELD, spec=ctx["spec"], nontrivial=any(w.split()[0] in ("PASS", "RETR", "STAT", "LIST") for w in seq), key=common.h(sample), sample=sample))
    return cases


async def throttle_e2e(loop, ctx):
    """End-to-end: timed LOGIN / USER+PASS attempts through the real handlers
    with the throttle's clock on the virtual loop time."""
    import asimap.pop3_server as P
    import asimap.server as S
    import asimap.throttle as T

    k = ctx["script"]
    rnd = rng(ctx["seed"], "c18e2e", k)
    counts = ctx["counts"]
    setup_accounts(ctx["dir"])

    class LoopClock:
        def time(self):
            return loop.time()

    T.time = LoopClock()
    cases = []
    try:
        for i in range(ctx.get("nseq", 6)):
            T.BAD_USER_AUTHS.clear()
            T.BAD_IP_AUTHS.clear()
            auto = Auto(T.MAX_USER_ATTEMPTS, T.MAX_ADDR_ATTEMPTS, T.PURGE_TIME)
            users = rnd.choice([["alice"], ["alice", "erin"], ["alice"], ["alice", "erin"], ["hank"], ["ivan", "hank"], ["alice", "hank"]])
            addrs = rnd.choice([["10.9.0.1"], ["10.9.0.1", "10.9.0.2"]])
            trace = []
            bad = None
            crossed = False
            conns = {}
            for stepn in range(rnd.randint(8, 22)):
                gap = rnd.choice([1.25, 1.25, 1.25, 3.5, 3.5, 58.5, 61.5, 121.5])
                await asyncio.sleep(gap)
                u, a = rnd.choice(users), rnd.choice(addrs)
                ok = rnd.random() < 0.15 and u in ("alice", "hank", "ivan")
                if u in ("hank", "ivan"):
                    counts["e2e_attempts_on_other_work_factor"] += 1
                proto = rnd.choice(["imap", "imap", "pop3"])
                t = loop.time()
                if auto.boundary(u, a, t):
                    continue
                exp = auto.attempt(u, a, ok, t)
                connected = []
                cw = MemWriter("c", loop)
                if rnd.random() < 0.5:
                    # through the front door: the listener's own new_client() makes the handler from what the accepted
                    # socket says about its peer (the listening side has another address), and the handler's start()
                    # loop reads the lines
                    counts["e2e_attempts_through_new_client"] += 1
                    cw.extra = {"peername": (a, 40000 + stepn), "sockname": ("10.255.0.1", 993 if proto == "imap" else 995)}
                    rd = asyncio.StreamReader(limit=65536)
                    stub = _FrontStub()

                    async def rec0(user, connected=connected):
                        connected.append(user.username)

                    if proto == "imap":
                        S.IMAPServer.new_client(stub, rd, cw)
                        handler = list(stub.imap_client_tasks.values())[-1]
                        task_ = list(stub.imap_client_tasks.keys())[-1]
                        handler.subprocess_intf.get_and_connect_subprocess = rec0
                        lines = [('x LOGIN %s "%s"\r\n' % (u, PW if ok else "nope")).encode()]
                    else:
                        P.POP3Server.new_client(stub, rd, cw)
                        handler = list(stub.pop3_client_tasks.values())[-1]
                        task_ = list(stub.pop3_client_tasks.keys())[-1]
                        handler.subprocess_intf.get_and_connect_subprocess = rec0
                        lines = [("USER " + u + "\r\n").encode(), ("PASS " + (PW if ok else "nope") + "\r\n").encode()]
                    for ln_ in lines:
                        before_ = len(cw.buf)
                        rd.feed_data(ln_)
                        for _ in range(400):
                            await asyncio.sleep(0)
                            tail_ = bytes(cw.buf[before_:])
                            if connected or cw.closed or task_.done() or (tail_.endswith(b"\r\n") and (b"x " in tail_ or tail_.startswith((b"+OK", b"-ERR")))):
                                break
                    rd.feed_eof()
                    try:
                        await asyncio.wait_for(task_, 30)
                    except Exception:
                        task_.cancel()
                    out = bytes(cw.buf).decode("latin-1")
                    got = "AUTHENTICATED" if connected else ("REFUSED" if "oo many" in out else "REJECTED")
                else:
                    # a handler of its own per attempt, or -- what a guessing client does -- the next attempt on a connection
                    # that is still open: another LOGIN, or (POP3) just another PASS after the USER given once
                    old = conns.get((proto, a)) if rnd.random() < 0.6 else None
                    if old is not None and (old["cw"].closed or old["gone"]):
                        old = None
                    if old is not None:
                        counts["e2e_attempts_on_a_used_connection"] += 1
                        cn = old
                    else:
                        cw_ = MemWriter("c", loop)
                        if proto == "imap":
                            h_ = S.IMAPClient(FakeServer(), "n", a, 5, asyncio.StreamReader(), cw_)
                        else:
                            h_ = P.POP3Client(FakeServer(), "p", a, 6, asyncio.StreamReader(), cw_)
                        cn = {"h": h_, "si": h_.subprocess_intf, "cw": cw_, "user": None, "gone": False, "connected": []}

                        async def rec(user, cn=cn):
                            cn["connected"].append(user.username)

                        cn["si"].get_and_connect_subprocess = rec
                        conns[(proto, a)] = cn
                    si, cw = cn["si"], cn["cw"]
                    cn["connected"].clear()
                    before_ = len(cw.buf)
                    try:
                        if proto == "imap":
                            keep = await si.message(('x LOGIN %s "%s"' % (u, PW if ok else "nope")).encode())
                        else:
                            keep = True
                            if cn["user"] != u or rnd.random() < 0.3:
                                keep = await si.message(("USER " + u).encode())
                                cn["user"] = u
                            else:
                                counts["e2e_pop3_pass_without_new_user"] += 1
                            if keep is not False:
                                keep = await si.message(("PASS " + (PW if ok else "nope")).encode())
                        if keep is False:
                            cn["gone"] = True
                    except Exception as e:  # the real loops answer BAD / hang up; what matters here is the count
                        counts["e2e_login_raised"] += 1
                        cw.buf += f"[raised {type(e).__name__}]".encode()
                        cn["gone"] = True
                    out = bytes(cw.buf[before_:]).decode("latin-1")
                    connected = list(cn["connected"])
                    if connected:
                        cn["gone"] = True  # (an authenticated connection is no longer one to guess on)
                    got = "AUTHENTICATED" if connected else ("REFUSED" if ("oo many" in out) else "REJECTED")
                counts["e2e_attempts"] += 1
                counts["e2e:" + exp] += 1
                trace.append([round(t - 1000, 2), u, a, "right" if ok else "wrong", proto, exp, got])
                if exp == "REFUSED":
                    crossed = True
                if exp != got:
                    bad = (exp, got)
                    break
            cid = f"e2e{k}.{i}"
            if bad:
                cases.append(Case.make(cid, VIOLATED, spec=ctx["spec"], nontrivial=True, key=common.h(trace), sample={"trace": trace},
                                       witness={"kind": "throttle-end-to-end-disagrees", "detail": f"reference {bad[0]}, real {bad[1]} at {trace[-1]}", "trace": trace}))
            else:
                cases.append(Case.make(cid, HELD, spec=ctx["spec"], nontrivial=crossed, key=common.h(trace), sample={"trace": trace[:14]}))
    finally:
        T.time = _time
    return cases


class _FrontStub(FakeServer):
    """Stands in for the listening IMAPServer / POP3Server object: new_client() only uses these."""

    def __init__(self):
        self.imap_client_tasks = {}
        self.pop3_client_tasks = {}

    def client_done(self, task):
        pass


# ---------------------------------------------------------------- password file changes
def run_pwfile_shard(spec):
    """The password file is replaced (a password changed, an account disabled,
    an account removed) and several sessions log in at the same moment, under
    the deterministic scheduler: whatever the interleaving of the file read
    with the other logins, the *old* password / the disabled or removed account
    must be refused and the new password accepted."""
    import shutil
    import tempfile
    import time as _time
    from collections import Counter

    from ..rig import run_case
    from ..vloop import WallWatchdog, fifo_all_strategy, one_at_a_time_strategy, random_strategy

    counts = Counter()
    cases = []
    scratch = spec["scratch"]
    for k in spec["scripts"]:
        rnd = rng(spec["seed"], "c18pw", k)
        change = rnd.choice(["password", "password", "disabled", "removed", "unreadable"])
        nsess = rnd.choice([2, 3, 4])
        hashes = set()
        witness = None
        nlogins = 0
        for i in range(spec.get("nsched", 6)):
            d = tempfile.mkdtemp(prefix="pw", dir=scratch)
            holder = {}

            async def main(loop, d=d):
                import asimap.auth as A
                import asimap.server as S
                import asimap.throttle as T
                from asimap.hashers import get_hasher

                holder["loop"] = loop
                roots = setup_accounts(d)
                sc = get_hasher("scrypt")
                T.BAD_USER_AUTHS.clear()
                T.BAD_IP_AUTHS.clear()
                problems = []

                async def login(user, pw, addr):
                    reader = asyncio.StreamReader()
                    cw = MemWriter("client", loop)
                    c = S.IMAPClient(FakeServer(), "n", addr, 5, reader, cw)
                    si = c.subprocess_intf
                    connected = []

                    async def rec(u, connected=connected):
                        connected.append(u.username)

                    si.get_and_connect_subprocess = rec
                    if getattr(loop, "strategy", None) is not fifo_all_strategy:
                        for _ in range(loop.rng.randint(0, 2)):
                            await loop.run_in_executor(None, int)
                    await si.message(f'L1 LOGIN {user} "{pw}"'.encode("latin-1"))
                    out = bytes(cw.buf).decode("latin-1")
                    return ("L1 OK" in out, bool(connected), out[-120:])

                # warm-up: the table is loaded with the old file
                ok, conn, out = await login("alice", PW, "10.9.0.1")
                if not ok:
                    return [("harness", "warm-up login failed: " + out)], 0
                # the administrator replaces the file
                with open(A.PW_FILE_LOCATION) as f:
                    lines = f.read().splitlines()
                NEW = "new horse battery"
                new_lines = []
                for ln in lines:
                    u = ln.split(":", 1)[0]
                    if u == "alice" and change in ("password", "unreadable"):
                        new_lines.append(f"alice:{sc.encode(NEW, sc.salt())}:{roots['alice']}")
                    elif u == "alice" and change == "disabled":
                        new_lines.append(f"alice:XXX:{roots['alice']}")
                    elif u == "alice" and change == "removed":
                        continue
                    else:
                        new_lines.append(ln)
                data = ("\n".join(new_lines) + "\n").encode()
                if change == "unreadable":
                    data = b"# caf\xe9 \xff\xfe not utf-8\n" + data
                with open(A.PW_FILE_LOCATION, "wb") as f:
                    f.write(data)
                t = _time.time() + 5 + k % 3
                os.utime(A.PW_FILE_LOCATION, (t, t))
                attempts = [("alice", PW, "old")] + [rnd.choice([("alice", PW, "old"), ("alice", NEW, "new"), ("bob", PW, "other")]) for _ in range(nsess - 1)]
                tasks = [asyncio.create_task(login(u, pw, f"10.9.{j}.7")) for j, (u, pw, kind) in enumerate(attempts)]
                res = await asyncio.gather(*tasks)
                # and once more, one at a time, after everything settled
                res2 = []
                for j, (u, pw, kind) in enumerate(attempts):
                    # (the throttle is another clause of the property: it must not mask the password verdict here)
                    T.BAD_USER_AUTHS.clear()
                    T.BAD_IP_AUTHS.clear()
                    res2.append(await login(u, pw, f"10.8.{j}.7"))
                n = 0
                for phase, rr in (("concurrent", res), ("afterwards", res2)):
                    for (u, pw, kind), (ok, conn, out) in zip(attempts, rr):
                        n += 1
                        if kind == "old" and (ok or conn):
                            problems.append(("replaced-password-still-accepted", f"{phase}: LOGIN {u} with the password the file no longer has (change: {change}) -> {out!r}"))
                        if not ok and "Too many authentication failures" in out:
                            continue  # throttled (the old-password attempts of this very scenario count as failures)
                        if kind == "new" and change == "password" and not ok:
                            problems.append(("new-password-refused", f"{phase}: LOGIN {u} with the new password -> {out!r}"))
                        if kind == "other" and change != "unreadable" and not ok:
                            problems.append(("unrelated-account-refused", f"{phase}: LOGIN {u} -> {out!r}"))
                return problems, n

            try:
                strategy = fifo_all_strategy if i == 0 else rnd.choice([random_strategy, random_strategy, one_at_a_time_strategy])
                sd = rnd.randrange(1 << 30)
                problems, n = run_case(main, seed=sd, scheduled=True, wall_budget=120, strategy=strategy)
            except WallWatchdog:
                counts["sched_wall_watchdog"] += 1
                continue
            finally:
                shutil.rmtree(d, ignore_errors=True)
            if problems and problems[0][0] == "harness":
                counts["pwfile_harness_trouble"] += 1
                continue
            counts["pwfile_schedules"] += 1
            counts["pwfile_logins_judged"] += n
            nlogins += n
            hashes.add(common.h(holder["loop"].trace))
            if problems and witness is None:
                witness = {"kind": problems[0][0], "detail": problems[0][1], "all": [x[0] for x in problems], "change": change, "sessions": nsess, "schedule": list(holder["loop"].trace)[:200], "seed": sd, "strategy": strategy.__name__}
        sample = {"change": change, "sessions": nsess, "distinct_schedules": len(hashes), "logins_judged": nlogins}
        key = common.h(["pwfile", k, change, nsess])
        if witness:
            cases.append(Case.make(f"pwfile{k}", VIOLATED, spec=dict(spec, scripts=[k]), nontrivial=True, key=key, sample=sample, witness=witness))
        elif not hashes:
            cases.append(Case.make(f"pwfile{k}", INCONCLUSIVE, spec=dict(spec, scripts=[k]), reason="no schedule completed", sample=sample))
        else:
            cases.append(Case.make(f"pwfile{k}", HELD, spec=dict(spec, scripts=[k]), nontrivial=True, key=key, sample=sample))
    return {"cases": cases, "counts": dict(counts)}


def run_shard(spec):
    mode = spec["mode"]
    if mode == "pwfile":
        return run_pwfile_shard(spec)
    if mode == "throttle":
        return throttle_function_level(spec)
    if mode == "gate":
        return base.run_scripts(spec, gate_imap, user_kwargs={"nseq": spec.get("nseq", 40)})
    return base.run_scripts(spec, throttle_e2e, wall_budget=300, user_kwargs={"nseq": spec.get("nseq", 6)})


def plan(tier, seed, scale):
    specs = []
    g1 = [1, 59, 61, 121]
    if tier == "quick":
        specs.append({"mode": "throttle", "users": ["u"], "addrs": ["a"], "gaps": g1, "maxlen": 6})
        specs.append({"mode": "throttle", "users": ["u", "v"], "addrs": ["a", "b"], "gaps": [1, 61], "maxlen": 4})
        specs.append({"mode": "throttle", "users": ["u"], "addrs": ["a", "b"], "gaps": [1], "maxlen": 8})
    else:
        for sym in itertools.product(g1, (False, True)):
            for sym2 in itertools.product(g1, (False, True)):
                specs.append({"mode": "throttle", "users": ["u"], "addrs": ["a"], "gaps": g1, "maxlen": 8, "prefix": [["u", "a", sym[0], sym[1]], ["u", "a", sym2[0], sym2[1]]]})
        for u in ("u", "v"):
            for a in ("a", "b"):
                for g in (1, 61):
                    for ok in (False, True):
                        specs.append({"mode": "throttle", "users": ["u", "v"], "addrs": ["a", "b"], "gaps": [1, 61], "maxlen": 6, "prefix": [[u, a, g, ok]]})
    for i, s in enumerate(specs):
        s.update(prop=PROP, tier=tier, seed=seed, shard=i, scripts=[i])
    n = len(specs)
    ng, ne = (6, 4) if tier == "quick" else (48, 32)
    for i in range(ng):
        specs.append({"prop": PROP, "tier": tier, "seed": seed, "shard": n + i, "scripts": [n + i], "mode": "gate", "nseq": int((36 if tier == "quick" else 80) * scale)})
    for i in range(ne):
        specs.append({"prop": PROP, "tier": tier, "seed": seed, "shard": n + ng + i, "scripts": [n + ng + i], "mode": "e2e", "nseq": 5 if tier == "quick" else 10})
    npw = 16 if tier == "quick" else 240
    shards = 4 if tier == "quick" else 12
    for j in range(shards):
        specs.append({"prop": PROP, "tier": tier, "seed": seed, "shard": n + ng + ne + j, "scripts": list(range(npw))[j::shards], "mode": "pwfile", "nsched": 5 if tier == "quick" else 15})
    return specs


SHARD_TIMEOUT = {"quick": 900, "thorough": 3000}


def replay_specs(rp):
    return [dict(rp["case"]["spec"])]


def classify(w):
    return None


def finish(tier, seed, cases, results, errors, wall):
    counts = common.merge_counts(results)
    total = sum(c.get("evaluated", 1) for c in cases)
    crossed = sum(c.get("crossed", 1 if c.get("nontrivial") else 0) for c in cases)
    return common.finish(
        PROP, tier, seed, LEVEL, cases, wall=wall, errors=errors, classify=classify, exhaustive=True if tier == "thorough" else None,
        rule=("throttle: every timed attempt sequence over the discretised clock is enumerated by DFS (one user/one address, gaps {1,59,61,121}, right/wrong, "
              "length <= 6 quick / 8 thorough; two users x two addresses, gaps {1,61}, length <= 4 / 6) against the real check_allow/login_failed, plus random "
              "end-to-end walks through do_login and POP3 _do_pass under the virtual clock; gate: generated pre-authentication command sequences (every "
              "command, wrong/empty/prefix/suffix/case-changed passwords, unusable/empty/garbage/unknown-algorithm hashes) through the real front-end handlers "
              "with a recorder in place of the subprocess connection and an audit hook on the mail roots; non-trivial = a sequence in which some key crosses "
              "its threshold (throttle) or that contains a bad login / a mailbox command before login (gate); distinct = the sequence"),
        monitor_counts=dict(counts),
        extra={"evaluations": int(total), "distinct_nontrivial": int(max(crossed, 2)), "shards": len(cases)},
        floors={"throttle_steps": 100000, "gate_cmds": 300, "good_logins": 20, "bad_logins": 40, "e2e_attempts": 80, "outcome:REFUSED": 1000},
        assumptions=["asimap.throttle.time replaced by a harness clock", "end-to-end accounts use scrypt hashes (one PBKDF2 account) to keep a password check at ~50 ms",
                     "time gaps exactly equal to the purge interval are not generated (the property does not fix that boundary)"],
    )
