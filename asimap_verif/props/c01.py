"""C01 -- message sequence numbers never desynchronise between server and
session.  Monitor: per-session view replayer (history.Sess) + flush
comparison with the server's message list."""
from .hist_base import HistProp, module_api

PROP = "C01"


async def _prep(hp, w, rnd, n=5, names=("INBOX", "other")):
    a = w.session()
    for nm in names:
        if nm not in w.boxes:
            await w.op_create(a, nm)
    for i in range(n):
        await w.op_append(a, "INBOX")
    b = w.session()
    await w.op_select(a, "INBOX")
    await w.op_select(b, "INBOX")
    return a, b


async def sk_expunge_then_delivery(hp, w, rnd, ctx):
    """A expunges while B is selected and not idling, then an external
    delivery arrives, then B NOOPs."""
    a, b = await _prep(hp, w, rnd)
    await w.op_store(a, [2, 4], "add", ["\\Deleted"])
    await w.op_expunge(a)
    w.deliver("INBOX", 1)
    await w.rig.advance(6)
    await w.op_noop(b)
    await w.op_noop(a)


async def sk_expunge_then_append(hp, w, rnd, ctx):
    a, b = await _prep(hp, w, rnd)
    await w.op_store(a, [1, 3], "add", ["\\Deleted"])
    await w.op_expunge(a)
    await w.op_append(a, "INBOX")
    await w.op_fetch(b, [1], "UID FLAGS")
    await w.op_noop(b)


async def sk_expunge_then_copy_in(hp, w, rnd, ctx):
    a, b = await _prep(hp, w, rnd)
    c = w.session()
    await w.op_append(c, "other")
    await w.op_select(c, "other")
    await w.op_store(a, [5], "add", ["\\Deleted"])
    await w.op_expunge(a)
    await w.op_copy(c, [1], "INBOX")
    await w.op_noop(b)
    await w.op_noop(a)


async def sk_expunge_while_idling(hp, w, rnd, ctx):
    a, b = await _prep(hp, w, rnd)
    await w.op_idle(b)
    await w.op_store(a, [1, 2], "add", ["\\Deleted"])
    await w.op_expunge(a)
    w.deliver("INBOX", 2)
    await w.rig.advance(6)
    await w.op_done(b)
    await w.op_noop(b)


async def sk_move_out_selected_twice(hp, w, rnd, ctx):
    a, b = await _prep(hp, w, rnd)
    await w.op_copy(a, [2, 3], "other", move=True)
    await w.op_fetch(b, [1], "UID")
    await w.op_noop(b)
    await w.op_copy(b, [1], "other", move=True)
    await w.op_noop(a)


async def sk_move_with_pending_delivery(hp, w, rnd, ctx):
    """MOVE whose pre-command resync finds new mail: its EXPUNGEs must not
    overtake the notifications queued for the same session."""
    a, b = await _prep(hp, w, rnd)
    w.deliver("INBOX", 2)
    await w.op_copy(a, [1], "other", move=True)
    await w.op_noop(a)
    await w.op_noop(b)


async def sk_uid_fetch_behind_expunge(hp, w, rnd, ctx):
    a, b = await _prep(hp, w, rnd)
    await w.op_store(a, [2, 4], "add", ["\\Deleted"])
    await w.op_expunge(a)
    us = [m.uid for m in w.boxes["INBOX"].msgs]
    await w.op_fetch(b, us, "FLAGS", uid_mode=True)
    await w.op_noop(b)


async def sk_rename_inbox_with_watcher(hp, w, rnd, ctx):
    a, b = await _prep(hp, w, rnd)
    await w.op_rename(a, "INBOX", "saved")
    await w.op_noop(b)
    await w.op_append(a, "INBOX")
    await w.op_noop(b)
    await w.op_noop(a)


async def sk_selected_mailbox_deleted_and_created_again(hp, w, rnd, ctx):
    """A has a mailbox selected that B deletes; it stays as a placeholder
    (it has an inferior) and is created again later; A has moved on to INBOX.
    What then arrives in the re-created mailbox is none of A's business: A's
    view of INBOX only ever changes by what happens in INBOX."""
    a, b = w.session(), w.session()
    c = w.session()
    await w.op_create(a, "ph/child")
    for i in range(2):
        await w.op_append(a, "ph")
    for i in range(3):
        await w.op_append(a, "INBOX")
    await w.op_select(a, "ph")
    await w.op_select(c, "ph", examine=True)
    # B changes the mailbox while A and C just sit there: what is queued up for them dies with the mailbox
    await w.op_select(b, "ph")
    await w.op_store(b, [1], "add", ["\\Deleted", "\\Flagged"])
    await w.op_expunge(b)
    await w.op_append(b, "ph")
    await w.op_select(b, "INBOX")
    await w.op_delete(b, "ph")
    await w.op_select(a, "INBOX")
    await w.op_noop(c)
    await w.op_create(b, "ph")
    await w.op_append(b, "ph")
    await w.op_noop(a)
    w.deliver("ph", 2)
    await w.rig.advance(25)
    await w.op_noop(a)
    await w.op_fetch(a, [1, 2, 3], "UID FLAGS")
    await w.op_select(b, "ph")
    await w.op_store(b, [1], "add", ["\\Flagged"])
    await w.op_noop(a)
    await w.op_select(c, "INBOX")
    await w.op_append(b, "ph")
    await w.op_noop(c)
    await w.op_noop(a)
    await w.observe()


async def sk_selected_leaf_deleted_with_updates_queued(hp, w, rnd, ctx):
    """The same with a leaf mailbox (it is really removed), and the passive
    session goes on with EXAMINE of another mailbox, then SELECT."""
    a, b = w.session(), w.session()
    await w.op_create(a, "leafx")
    await w.op_create(a, "other")
    for i in range(4):
        await w.op_append(a, "leafx")
    for i in range(5):
        await w.op_append(a, "other")
    await w.op_select(a, "leafx")
    await w.op_select(b, "leafx")
    await w.op_store(b, [2, 3], "add", ["\\Deleted"])
    await w.op_expunge(b)
    await w.op_store(b, [1], "add", ["kw1"])
    await w.op_select(b, "INBOX")
    await w.op_delete(b, "leafx")
    await w.op_select(a, "other", examine=True)
    await w.op_noop(a)
    await w.op_fetch(a, [1, 2, 3, 4, 5], "UID FLAGS")
    await w.op_select(a, "other")
    await w.op_noop(a)
    await w.op_append(b, "other")
    await w.op_noop(a)
    await w.observe()


class C01(HistProp):
    prop = PROP
    skeletons = [sk_expunge_then_delivery, sk_expunge_then_append, sk_expunge_then_copy_in, sk_expunge_while_idling,
                 sk_move_out_selected_twice, sk_move_with_pending_delivery, sk_uid_fetch_behind_expunge, sk_rename_inbox_with_watcher, sk_selected_mailbox_deleted_and_created_again, sk_selected_leaf_deleted_with_updates_queued]
    weights = {"store_del": 10, "expunge": 8, "noop": 10, "deliver": 6, "idle": 4, "move": 5, "deliver_stalled": 2}
    pack_limits = [100, 100, 6]

    def nontrivial(self, w):
        s = w.stats
        return (s["replayed_expunge"] + s["view_grew"]) >= 1 and s["flush_compares"] >= 1 and s["others_to_be_told_expunge"] + s["delivered_msgs"] + s["copied_msgs"] >= 1


# ---------------------------------------------------------------- scheduled tier
# Concurrent command sets (the ones C10 uses, plus sets aimed at updates that
# are queued for a session while its own command is in progress) run under the
# deterministic scheduler; the always-on view monitor of every rig session
# (EXISTS never shrinks the view, EXPUNGE/FETCH name positions inside it) is the
# oracle.  Reported here because what it decides is C01's statement.
SCHED_SETS = [
    # MOVE into the mailbox the mover has selected; other sessions watching
    [("INBOX", ["UID MOVE 1:2 INBOX", "NOOP"]), ("INBOX", ["NOOP", "NOOP"])],
    [("INBOX", ["UID MOVE 2:3 other", "NOOP"]), ("INBOX", ["UID STORE 1:5 +FLAGS (\\Flagged)", "NOOP"]), ("INBOX", ["NOOP"])],
    [("INBOX", ["UID MOVE 1:3 other"]), ("other", ["UID MOVE 1:2 INBOX", "NOOP"]), ("INBOX", ["UID FETCH 1:* (FLAGS)", "NOOP"])],
    [("INBOX", ["EXPUNGE", "NOOP"]), ("INBOX", ["APPEND INBOX", "NOOP"]), ("INBOX", ["UID STORE 1:* +FLAGS (kwx)", "NOOP"])],
    [("INBOX", ["UID EXPUNGE 2", "UID FETCH 1:* (FLAGS)"]), ("INBOX", ["UID COPY 1:* INBOX", "NOOP"]), ("INBOX", ["CHECK"])],
    [("pop3", ["DELE 1", "DELE 2", "QUIT"]), ("INBOX", ["UID STORE 3:5 +FLAGS (\\Seen)", "NOOP"]), ("INBOX", ["NOOP", "UID FETCH 1:* (FLAGS)"])],
    # an EXPUNGE issued while another session's command (which produces updates for the expunger) is still unanswered
    [("INBOX", ["UID STORE 1:5 +FLAGS (\\Flagged)", "NOOP"]), ("INBOX", ["EXPUNGE", "NOOP"])],
    [("INBOX", ["UID EXPUNGE 4", "NOOP"]), ("INBOX", ["UID EXPUNGE 2", "NOOP"])],
    [("INBOX", ["UID MOVE 4 other", "NOOP"]), ("INBOX", ["UID EXPUNGE 2", "NOOP"]), ("INBOX", ["NOOP"])],
    [("INBOX", ["UID STORE 1:* FLAGS (kwx)", "NOOP"]), ("INBOX", ["UID STORE 3 +FLAGS (\\Deleted)", "EXPUNGE", "NOOP"]), ("INBOX", ["EXPUNGE", "NOOP"])],
    # a session selects the mailbox it already has selected (or examines it) while another session's removal is under way
    [("INBOX", ["SELECT INBOX", "NOOP", "NOOP"]), ("INBOX", ["EXPUNGE", "NOOP"])],
    [("INBOX", ["EXAMINE INBOX", "NOOP", "UID FETCH 1:* (FLAGS)"]), ("INBOX", ["UID EXPUNGE 2:4", "NOOP"]), ("INBOX", ["UID MOVE 1 other", "NOOP"])],
    [("INBOX", ["NOOP", "SELECT INBOX", "CHECK"]), ("INBOX", ["UID STORE 1:* +FLAGS (\\Deleted)", "EXPUNGE"]), ("INBOX", ["APPEND INBOX", "NOOP"])],
    # nothing is flagged \\Deleted when the EXPUNGE arrives; a STORE that sets the flag is under way
    [("#", ["nodeleted"]), ("INBOX", ["UID STORE 3 +FLAGS (\\Deleted)", "NOOP"]), ("INBOX", ["EXPUNGE", "NOOP"]), ("INBOX", ["NOOP", "NOOP"])],
    [("#", ["nodeleted"]), ("INBOX", ["UID STORE 2:4 +FLAGS (\\Deleted \\Flagged)", "NOOP"]), ("INBOX", ["CLOSE"]), ("INBOX", ["UID FETCH 1:* (FLAGS)", "NOOP"]), ("INBOX", ["EXPUNGE", "NOOP"])],
]


def run_sched_shard(spec):
    import shutil
    import tempfile
    from collections import Counter

    from .. import common
    from ..common import Case, HELD, INCONCLUSIVE, VIOLATED
    from ..gen import rng
    from ..rig import run_case
    from ..vloop import WallWatchdog, fifo_all_strategy, one_at_a_time_strategy, random_strategy
    from . import c10

    counts = Counter()
    cases = []
    scratch = spec["scratch"]
    for k in spec["scripts"]:
        rnd = rng(spec["seed"], "c01sched" if not spec.get("only_flags") else "c04sched", k)
        sets = (spec.get("sets") or SCHED_SETS) + c10.FORCED
        cmdset = sets[k] if k < len(sets) else c10.gen_set(rnd)
        # a pseudo entry ("#", [options]) selects a variant of the initial state (c10.setup_state)
        options = [o for w_, cs in cmdset if w_ == "#" for o in cs]
        cmdset = [(w, list(c) + (["NOOP"] if w not in (None, "pop3") else [])) for w, c in cmdset if w != "#"]
        ctx = {"script": k, "dir": None, "options": options}
        hashes = set()
        witness = None
        events = 0
        for i in range(spec.get("nsched", 5)):
            d = tempfile.mkdtemp(prefix="m", dir=scratch)
            ctx["dir"] = d
            holder = {}

            async def main(loop):
                holder["loop"] = loop
                return await c10.one_run(loop, ctx, cmdset, "concurrent")

            try:
                strategy = fifo_all_strategy if i == 0 else rnd.choice([random_strategy, random_strategy, one_at_a_time_strategy])
                sd = rnd.randrange(1 << 30)
                res, fs, info = run_case(main, seed=sd, scheduled=True, wall_budget=60, strategy=strategy)
            except WallWatchdog:
                counts["sched_wall_watchdog"] += 1
                continue
            except Exception as e:  # harness trouble is never a verdict
                counts["sched_harness_error"] += 1
                continue
            finally:
                shutil.rmtree(d, ignore_errors=True)
            counts["schedules"] += 1
            events += info.get("view_events", 0)
            counts["view_monitor_events"] += info.get("view_events", 0)
            counts["final_view_size_checks"] += info.get("final_view_checks", 0)
            counts["final_flag_belief_checks"] += info.get("final_flag_belief_checks", 0)
            hashes.add(common.h(holder["loop"].trace))
            if spec.get("only_flags"):
                # (C04's scheduled tier: what each session was last told about a position's flags)
                info["view_errors"] = [e for e in info.get("view_errors") or [] if e.startswith("flags:")]
            if info.get("view_errors") and witness is None:
                witness = {"kind": "view-monitor", "detail": str(info["view_errors"][:2])[:6000], "commands": cmdset, "schedule": list(holder["loop"].trace)[:200], "seed": sd, "strategy": strategy.__name__, "data": {}}
        counts["distinct_schedules"] += len(hashes)
        sample = {"commands": cmdset, "distinct_schedules": len(hashes), "view_monitor_events": events}
        if witness:
            cases.append(Case.make(f"sched{k}", VIOLATED, spec=dict(spec, scripts=[k]), nontrivial=True, key=common.h(cmdset), sample=sample, witness=witness))
        elif not hashes:
            cases.append(Case.make(f"sched{k}", INCONCLUSIVE, spec=dict(spec, scripts=[k]), reason="no schedule completed", sample=sample))
        else:
            cases.append(Case.make(f"sched{k}", HELD, spec=dict(spec, scripts=[k]), nontrivial=len(hashes) > 1 and events > 0, key=common.h(cmdset), sample=sample))
    return {"cases": cases, "counts": dict(counts)}


hp = C01()
plan, run_shard, replay_specs, finish = module_api(
    hp, quick=160, thorough=6000,
    rule=("one case = one multi-session history (2-3 sessions, 1-2 shared mailboxes; forced skeletons first, then seeded random histories); "
          "non-trivial = some session other than the actor had to be told about an EXPUNGE or new messages and at least one flush comparison "
          "(NOOP/CHECK/IDLE) against the server's message list was made; distinct = hash of the operation sequence with numbers abstracted"),
    floors={"flush_compares": 40, "replayed_expunge": 20, "replayed_exists": 20, "full_view_compares": 20},
)

_plan_hist, _run_hist = plan, run_shard


def plan(tier, seed, scale):
    specs = _plan_hist(tier, seed, scale)
    n = int((40 if tier == "quick" else 600) * scale)
    shards = 8 if tier == "quick" else 16
    for s in range(shards):
        specs.append({"prop": PROP, "tier": tier, "seed": seed, "shard": 100 + s, "mode": "sched", "scripts": list(range(n))[s::shards], "nsched": 5 if tier == "quick" else 25})
    return specs


def run_shard(spec):
    if spec.get("mode") == "sched":
        return run_sched_shard(spec)
    return _run_hist(spec)
