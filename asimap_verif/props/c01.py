"""C01 -- message sequence numbers never desynchronise between server and
session.  Monitor: per-session view replayer (history.Sess) + flush
comparison with the server's message list."""
from .hist_base import HistProp, module_api

PROP = "C01"


async def _prep(hp, w, rnd, n=5, names=("INBOX", "other")):
    a = w.session()
    for nm in names:
        if nm not in w.boxes:
            await w.op_create(a, nm)
    for i in range(n):
        await w.op_append(a, "INBOX")
    b = w.session()
    await w.op_select(a, "INBOX")
    await w.op_select(b, "INBOX")
    return a, b


async def sk_expunge_then_delivery(hp, w, rnd, ctx):
    """A expunges while B is selected and not idling, then an external
    delivery arrives, then B NOOPs."""
    a, b = await _prep(hp, w, rnd)
    await w.op_store(a, [2, 4], "add", ["\\Deleted"])
    await w.op_expunge(a)
    w.deliver("INBOX", 1)
    await w.rig.advance(6)
    await w.op_noop(b)
    await w.op_noop(a)


async def sk_expunge_then_append(hp, w, rnd, ctx):
    a, b = await _prep(hp, w, rnd)
    await w.op_store(a, [1, 3], "add", ["\\Deleted"])
    await w.op_expunge(a)
    await w.op_append(a, "INBOX")
    await w.op_fetch(b, [1], "UID FLAGS")
    await w.op_noop(b)


async def sk_expunge_then_copy_in(hp, w, rnd, ctx):
    a, b = await _prep(hp, w, rnd)
    c = w.session()
    await w.op_append(c, "other")
    await w.op_select(c, "other")
    await w.op_store(a, [5], "add", ["\\Deleted"])
    await w.op_expunge(a)
    await w.op_copy(c, [1], "INBOX")
    await w.op_noop(b)
    await w.op_noop(a)


async def sk_expunge_while_idling(hp, w, rnd, ctx):
    a, b = await _prep(hp, w, rnd)
    await w.op_idle(b)
    await w.op_store(a, [1, 2], "add", ["\\Deleted"])
    await w.op_expunge(a)
    w.deliver("INBOX", 2)
    await w.rig.advance(6)
    await w.op_done(b)
    await w.op_noop(b)


async def sk_move_out_selected_twice(hp, w, rnd, ctx):
    a, b = await _prep(hp, w, rnd)
    await w.op_copy(a, [2, 3], "other", move=True)
    await w.op_fetch(b, [1], "UID")
    await w.op_noop(b)
    await w.op_copy(b, [1], "other", move=True)
    await w.op_noop(a)


async def sk_move_with_pending_delivery(hp, w, rnd, ctx):
    """MOVE whose pre-command resync finds new mail: its EXPUNGEs must not
    overtake the notifications queued for the same session."""
    a, b = await _prep(hp, w, rnd)
    w.deliver("INBOX", 2)
    await w.op_copy(a, [1], "other", move=True)
    await w.op_noop(a)
    await w.op_noop(b)


async def sk_uid_fetch_behind_expunge(hp, w, rnd, ctx):
    a, b = await _prep(hp, w, rnd)
    await w.op_store(a, [2, 4], "add", ["\\Deleted"])
    await w.op_expunge(a)
    us = [m.uid for m in w.boxes["INBOX"].msgs]
    await w.op_fetch(b, us, "FLAGS", uid_mode=True)
    await w.op_noop(b)


async def sk_rename_inbox_with_watcher(hp, w, rnd, ctx):
    a, b = await _prep(hp, w, rnd)
    await w.op_rename(a, "INBOX", "saved")
    await w.op_noop(b)
    await w.op_append(a, "INBOX")
    await w.op_noop(b)
    await w.op_noop(a)


class C01(HistProp):
    prop = PROP
    skeletons = [sk_expunge_then_delivery, sk_expunge_then_append, sk_expunge_then_copy_in, sk_expunge_while_idling,
                 sk_move_out_selected_twice, sk_move_with_pending_delivery, sk_uid_fetch_behind_expunge, sk_rename_inbox_with_watcher]
    weights = {"store_del": 10, "expunge": 8, "noop": 10, "deliver": 6, "idle": 4, "move": 5}
    pack_limits = [100, 100, 6]

    def nontrivial(self, w):
        s = w.stats
        return (s["replayed_expunge"] + s["view_grew"]) >= 1 and s["flush_compares"] >= 1 and s["others_to_be_told_expunge"] + s["delivered_msgs"] + s["copied_msgs"] >= 1


hp = C01()
plan, run_shard, replay_specs, finish = module_api(
    hp, quick=160, thorough=6000,
    rule=("one case = one multi-session history (2-3 sessions, 1-2 shared mailboxes; forced skeletons first, then seeded random histories); "
          "non-trivial = some session other than the actor had to be told about an EXPUNGE or new messages and at least one flush comparison "
          "(NOOP/CHECK/IDLE) against the server's message list was made; distinct = hash of the operation sequence with numbers abstracted"),
    floors={"flush_compares": 40, "replayed_expunge": 20, "replayed_exists": 20, "full_view_compares": 20},
)
