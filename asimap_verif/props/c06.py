"""C06 -- every command is answered exactly once, promptly, whatever its
arguments.

Monitor: for every command sent on the rig: exactly one tagged line with
its tag, status OK/NO/BAD (IDLE: after DONE), no other tag, no late bytes,
virtual latency < 60 s and the command-watchdog path not taken; afterwards
the session is still usable unless a BYE was sent."""
import re
from collections import Counter

from .. import common
from ..common import Case, HELD, INCONCLUSIVE, VIOLATED
from ..gen import CidFactory, rng
from ..rig import Rig, set_command_timeout
from . import base

PROP = "C06"
LEVEL = "exploration"
LATENCY_BOUND = 60.0

MBOX_ARGS = [
    ("inbox", "existing"), ("INBOX", "existing"), ("a", "existing"), ("a/b", "existing"), ('"a b"', "existing"),
    ("nope", "missing"), ("gone", "deleted"), ("p", "noselect"), ("p/c", "existing"), ('""', "empty"),
    ("a/nope/deeper", "missing"), ("Drafts", "existing"),
]


def msgsets(n):
    return [
        ("1", n >= 1), (str(max(n, 1)), n >= 1), (str(n + 1), False), ("0", False), ("*", n >= 1), (f"{n + 1}:*", False),
        ("1:*", n >= 1), ("2:1", n >= 2), ("4294967296", False), (f"1,{n + 1}", False), ("*:1", n >= 1), ("1:0", False),
        (f"{n + 5}:{n + 9}", False), ("1,1,1", n >= 1),
    ]


def gen_command(rnd, st):
    """Returns (text-or-bytes, klass, nontrivial).  st: dict with n (view
    size of the session), selected (bool)."""
    n = st["n"]
    kind = rnd.choice([
        "fetch", "fetch", "store", "search", "copy", "move", "uidfetch", "uidstore", "uidcopy", "uidmove", "uidexpunge", "uidsearch",
        "select", "examine", "status", "create", "delete", "rename", "subscribe", "unsubscribe", "list", "lsub",
        "append", "expunge", "close", "unselect", "check", "noop", "capability", "namespace", "id", "login", "authenticate",
        "idle", "malformed", "malformed",
    ])
    ms, valid = rnd.choice(msgsets(n))
    mb, mbk = rnd.choice(MBOX_ARGS)
    sel = st["selected"]
    if kind == "fetch":
        item = rnd.choice(["FLAGS", "(UID FLAGS)", "BODY.PEEK[]", "(UID RFC822.SIZE)", "BODY[TEXT]", "ENVELOPE", "FAST"])
        return f"FETCH {ms} {item}", "fetch", (not valid) or not sel
    if kind == "uidfetch":
        return f"UID FETCH {ms} (FLAGS)", "uidfetch", (not valid) or not sel
    if kind == "store":
        return f"STORE {ms} {rnd.choice(['+FLAGS', '-FLAGS', 'FLAGS', '+FLAGS.SILENT'])} ({rnd.choice(['\\\\Seen', '\\\\Flagged', 'kw1', '\\\\Deleted'])})".replace("\\\\", "\\"), "store", (not valid) or not sel
    if kind == "uidstore":
        return f"UID STORE {ms} +FLAGS (\\Flagged)", "uidstore", (not valid) or not sel
    if kind == "search":
        return f"SEARCH {rnd.choice([ms, 'ALL', 'UID ' + ms, 'NOT ' + ms, 'OR SEEN ' + ms, 'SUBJECT x', 'BEFORE 1-Jan-2030'])}", "search", (not valid) or not sel
    if kind == "uidsearch":
        return f"UID SEARCH {rnd.choice([ms, 'UID ' + ms, 'ALL'])}", "uidsearch", (not valid) or not sel
    if kind in ("copy", "move", "uidcopy", "uidmove"):
        verb = {"copy": "COPY", "move": "MOVE", "uidcopy": "UID COPY", "uidmove": "UID MOVE"}[kind]
        return f"{verb} {ms} {mb}", kind, (not valid) or mbk != "existing" or not sel
    if kind == "uidexpunge":
        return f"UID EXPUNGE {ms}", kind, (not valid) or not sel
    if kind in ("select", "examine", "delete", "subscribe", "unsubscribe", "create"):
        return f"{kind.upper()} {mb}", kind, mbk != "existing"
    if kind == "status":
        return f"STATUS {mb} ({rnd.choice(['MESSAGES', 'MESSAGES UIDNEXT UIDVALIDITY UNSEEN RECENT', 'UNSEEN'])})", kind, mbk != "existing"
    if kind == "rename":
        mb2, mbk2 = rnd.choice(MBOX_ARGS + [("new%d" % rnd.randint(1, 5), "missing")])
        return f"RENAME {mb} {mb2}", kind, mbk != "existing" or mbk2 != "missing"
    if kind in ("list", "lsub"):
        return f"{kind.upper()} {rnd.choice(['\"\"', 'a/', 'inbox', 'p', 'nope/'])} {rnd.choice(['*', '%', 'a*', '\"\"', 'INBOX', 'p/%', '%/%'])}", kind, False
    if kind == "append":
        cid, m = st["cids"].make(rnd)
        fl = rnd.choice(["", " (\\Seen)", " (\\Deleted kw)", ' "01-Jan-2020 10:00:00 +0000"'])
        return b"APPEND " + mb.encode() + fl.encode() + b" {%d+}\r\n" % len(m) + m, kind, mbk != "existing"
    if kind in ("expunge", "close", "unselect", "check"):
        return kind.upper(), kind, not sel
    if kind in ("noop", "capability", "namespace"):
        return kind.upper(), kind, False
    if kind == "id":
        return rnd.choice(['ID NIL', 'ID ("name" "x" "version" "1")']), kind, False
    if kind == "login":
        return "LOGIN user pass", kind, True
    if kind == "authenticate":
        return "AUTHENTICATE PLAIN", kind, True
    if kind == "idle":
        return "IDLE", kind, False
    # malformed
    return rnd.choice([
        "FROB 1", "FETCH", "FETCH 1", "FETCH 1 (", "FETCH a:b FLAGS", "STORE 1 FLAGS", "SELECT", "UID", "UID NOOP", "SEARCH", "SEARCH FROB",
        'SELECT "unterminated', "APPEND inbox {5}\r\nab", "STATUS inbox ()", "STATUS inbox (FROB)", "COPY 1", "LIST", 'LIST "" ', "RENAME a",
        "FETCH 1 BODY[", "FETCH 1 BODY[1.MIME", "SEARCH BEFORE 99-Foo-2020", "SEARCH BEFORE 31-Feb-2020", "SEARCH LARGER x", "STORE 1 +FLAGS (",
        "FETCH 1 BODY[]<5>", "NOOP extra", 'APPEND inbox "31-Feb-2020 10:00:00 +0000" {1+}\r\nx',
    ]), "malformed", True


async def setup(rig, rnd, cids):
    s = rig.session("Z")
    for nm in ("a", "a/b", '"a b"', "gone", "p/c"):
        await s.cmd(f"CREATE {nm}")
    await s.cmd("DELETE gone")
    await s.cmd("DELETE p")  # has an inferior -> \Noselect placeholder
    k = rnd.choice([0, 0, 1, 3, 6])
    for i in range(k):
        cid, m = cids.make(rnd)
        await s.append("inbox", m, flags=rnd.choice([None, ["\\Seen"], ["\\Deleted"]]))
    for i in range(rnd.choice([0, 2])):
        cid, m = cids.make(rnd)
        await s.append("a", m)
    await s.cmd("LOGOUT")
    return k


async def script(loop, ctx):
    rnd = rng(ctx["seed"], "c06", ctx["script"])
    counts = ctx["counts"]
    cids = CidFactory("m%d-" % ctx["script"])
    variant = ctx.get("timeout_variant")
    if variant:
        set_command_timeout(variant)
    else:
        set_command_timeout(120)
    rig = await Rig(ctx["dir"] + "/mail", loop).start()
    cases = []
    trace = []
    try:
        ninbox = await setup(rig, rnd, cids)
        restarted = False
        if rnd.random() < 0.5:
            await rig.restart()
            restarted = True
        nsteps = 14 if ctx["tier"] == "quick" else 24
        sess = None
        state = None
        for step in range(nsteps):
            if sess is None or sess.writer.closed or sess.wire_error:
                sess = rig.session("T")
                mode = rnd.choice(["auth", "sel-inbox", "sel-inbox", "exa-inbox", "sel-a", "deleted-under"])
                state = {"n": 0, "selected": False, "cids": cids, "mode": mode}
                if mode in ("sel-inbox", "exa-inbox", "sel-a"):
                    r = await sess.cmd(("EXAMINE " if mode == "exa-inbox" else "SELECT ") + ("a" if mode == "sel-a" else "inbox"))
                    if r.ok:
                        ex = [x.num for x in r.responses if x.kind == "num" and x.name == "EXISTS"]
                        state["n"] = ex[-1] if ex else 0
                        state["selected"] = True
                elif mode == "deleted-under":
                    await sess.cmd("CREATE tmpbox")
                    r = await sess.cmd("SELECT tmpbox")
                    o = rig.session("O")
                    await o.cmd("DELETE tmpbox")
                    await o.cmd("LOGOUT")
                    state["selected"] = r.ok
            text, klass, nontrivial = gen_command(rnd, state)
            cid = f"s{ctx['script']}.{step}"
            shown = text if isinstance(text, str) else text[:80].decode("latin-1")
            hits0 = len(rig.watchdog_hits)
            nresp0 = None
            if klass == "idle":
                r = await sess.idle()
                if r.status == "CONT":
                    if rnd.random() < 0.3:
                        sess.feed(b"IDLE")  # repeated IDLE while idling -> re-prompt
                        await rig.settle()
                    if rnd.random() < 0.3:
                        sess.feed(b"garbage while idling")
                        await rig.settle()
                    r2 = await sess.done()
                    r.status, r.tagged, r.latency = r2.status, r2.tagged, r2.latency
                    r.responses = r.responses + r2.responses
                    r.closed = r2.closed
            else:
                r = await sess.cmd(text)
            counts["commands"] += 1
            counts["cmd:" + klass] += 1
            counts["status:" + str(r.status)] += 1
            trace.append(f"{shown!r:.90} -> {r.status}")
            problems = []
            tagged = [x for x in r.responses if x.kind == "tagged"]
            bye = any(x.kind == "status" and x.status == "BYE" for x in r.responses)
            if r.status not in ("OK", "NO", "BAD"):
                if not (bye and r.closed):
                    problems.append(("no-tagged-reply", f"status={r.status} closed={r.closed} trailing={sess.trailing()[:100]!r}"))
            if len(tagged) > 1:
                problems.append(("duplicate-or-foreign-tagged", str(tagged)))
            if any(t.tag != r.tag for t in tagged):
                problems.append(("foreign-tag", str(tagged)))
            if r.responses and tagged and r.responses[-1] is not tagged[-1]:
                problems.append(("data-after-tagged", str(r.responses[-3:])))
            if len(rig.watchdog_hits) > hits0:
                problems.append(("watchdog", rig.watchdog_hits[-1][:200]))
            if r.latency is not None and r.latency >= LATENCY_BOUND:
                problems.append(("latency", f"{r.latency:.1f} virtual seconds"))
            counts["max_latency_ms"] = max(counts.get("max_latency_ms", 0), int((r.latency or 0) * 1000))
            # late bytes
            await rig.settle()
            late = sess.pump()
            if late and not (state["selected"]):
                problems.append(("late-bytes", str(late[:3])))
            if sess.wire_error:
                counts["wire_errors_seen"] += 1
            # usability
            if not problems and not bye and klass not in ("logout",):
                if sess.writer.closed:
                    problems.append(("closed-without-bye", f"after {shown!r:.80}: {r.tagged.text if r.tagged else ''!r:.120}"))
                else:
                    r3 = await sess.cmd("NOOP")
                    counts["followup_noop"] += 1
                    if r3.status != "OK":
                        problems.append(("followup-noop-unanswered", f"NOOP -> {r3.status}"))
            elif bye:
                counts["bye"] += 1
            # keep the session's view in step for number generation
            if klass in ("select", "examine"):
                state["selected"] = r.ok
                if r.ok:
                    ex = [x.num for x in r.responses if x.kind == "num" and x.name == "EXISTS"]
                    state["n"] = ex[-1] if ex else 0
                else:
                    state["n"] = 0
            elif klass in ("close", "unselect") and r.ok:
                state["selected"] = False
                state["n"] = 0
            else:
                for x in r.responses + late:
                    if x.kind == "num" and x.name == "EXISTS":
                        state["n"] = x.num
                    elif x.kind == "num" and x.name == "EXPUNGE":
                        state["n"] = max(0, state["n"] - 1)
            key = common.h([klass, r.status, state["mode"], nontrivial, restarted])
            spec = ctx["spec"]
            sample = {"state": state["mode"], "restarted": restarted, "cmd": shown[:100], "reply": r.status, "latency_vt": round(r.latency or 0, 3)}
            if problems:
                cases.append(Case.make(cid, VIOLATED, spec=spec, nontrivial=nontrivial, key=key, sample=sample,
                                       witness={"kind": problems[0][0], "detail": problems[0][1], "all": problems, "cmd": shown[:200], "class": klass,
                                                "mode": state["mode"], "restarted": restarted, "reply": (r.tagged.text if r.tagged else None),
                                                "transcript": sess.log[-14:], "log": [x[2][:200] for x in rig.log_records[-4:]]}))
                # this session may be wedged: start a fresh one
                try:
                    sess.eof()
                except Exception:
                    pass
                sess = None
            else:
                cases.append(Case.make(cid, HELD, spec=spec, nontrivial=nontrivial, key=key, sample=sample))
        ctx["trace"] = trace
    finally:
        try:
            await rig.stop()
        except Exception:
            counts["stop_failed"] += 1
    counts["wire_errors"] += len(rig.wire_errors)
    return cases


def run_shard(spec):
    if spec.get("mode") == "sched":
        return run_sched_shard(spec)
    res = base.run_scripts(spec, script)
    if spec.get("compare_timeouts"):
        # the bound must not depend on the watchdog: same scripts, other
        # COMMAND_TIMEOUT values, same replies
        ref = {c["id"]: c["sample"]["reply"] for c in res["cases"] if c.get("sample")}
        for variant in (7, 1000):
            r2 = base.run_scripts(dict(spec, scripts=spec["scripts"][:1]), script, user_kwargs={"timeout_variant": variant})
            for c in r2["cases"]:
                if c.get("sample") and c["id"] in ref and ref[c["id"]] != c["sample"]["reply"]:
                    res["cases"].append(Case.make(c["id"] + f"@timeout{variant}", VIOLATED, spec=c["spec"], nontrivial=True,
                                                  witness={"kind": "depends-on-watchdog", "detail": f"reply {ref[c['id']]} with COMMAND_TIMEOUT=120 but {c['sample']['reply']} with {variant}", "cmd": c["sample"]["cmd"]}))
            res["counts"]["timeout_variant_cases"] = res["counts"].get("timeout_variant_cases", 0) + len(r2["cases"])
        set_command_timeout(120)
    return res


# ---------------------------------------------------------------- scheduled tier
# Several sessions issue their commands at the same moment -- in particular
# commands that name the same mailbox right after a (re)start, when it is not
# active yet -- under the deterministic scheduler.  Oracle as above: every
# command gets exactly one tagged reply with its tag, within the bound, and the
# watchdog path is not taken.
SCHED_CMDS = ["SELECT a", "EXAMINE a", "STATUS a (MESSAGES UNSEEN)", "APPEND a", "STATUS a/b (MESSAGES)", "SELECT inbox", "STATUS inbox (MESSAGES UIDNEXT)", "LIST \"\" *",
              "SELECT \"a b\"", "COPY 1 a", "STATUS p (MESSAGES)", "SELECT p/c", "SUBSCRIBE a", "CREATE a/new", "APPEND inbox", "EXAMINE Drafts", "STATUS Archive (MESSAGES)"]


def run_sched_shard(spec):
    import asyncio
    import shutil
    import tempfile

    from ..rig import run_case
    from ..vloop import WallWatchdog, fifo_all_strategy, one_at_a_time_strategy, random_strategy

    counts = Counter()
    cases = []
    scratch = spec["scratch"]
    for k in spec["scripts"]:
        rnd = rng(spec["seed"], "c06sched", k)
        nsess = rnd.choice([2, 3, 3, 4])
        same = rnd.random() < 0.6
        first = rnd.choice(SCHED_CMDS[:5])
        plans = []
        for i in range(nsess):
            cmds = [rnd.choice(SCHED_CMDS[:5]) if same else rnd.choice(SCHED_CMDS)]
            if i == 0 and same:
                cmds = [first]
            cmds += [rnd.choice(SCHED_CMDS) for _ in range(rnd.choice([0, 1, 2]))]
            plans.append(cmds)
        restart = rnd.random() < 0.8
        hashes = set()
        witness = None
        ncmds = 0
        for i in range(spec.get("nsched", 5)):
            d = tempfile.mkdtemp(prefix="m", dir=scratch)
            holder = {}

            async def main(loop, d=d):
                holder["loop"] = loop
                rig = await Rig(d + "/mail", loop).start()
                problems = []
                n = 0
                try:
                    await setup(rig, rng(spec["seed"], "c06schedsetup", k), CidFactory("s%d-" % k))
                    if restart:
                        await rig.restart()
                    sessions = [rig.session(f"S{j}") for j in range(len(plans))]
                    await rig.settle()
                    hits0 = len(rig.watchdog_hits)

                    async def run(s, cmds):
                        out = []
                        for c in cmds:
                            if getattr(loop, "strategy", None) is not fifo_all_strategy:
                                for _ in range(loop.rng.randint(0, 2)):
                                    await loop.run_in_executor(None, int)
                            if c.startswith("APPEND "):
                                m = b"From: a@b\r\nSubject: s\r\n\r\nbody\r\n"
                                r = await s.cmd(b"APPEND " + c.split()[1].encode() + b" {%d+}\r\n" % len(m) + m)
                            else:
                                r = await s.cmd(c)
                            out.append((c, r))
                            if r.status not in ("OK", "NO", "BAD"):
                                break
                        return out

                    tasks = [asyncio.create_task(run(s, cmds)) for s, cmds in zip(sessions, plans)]
                    if getattr(loop, "strategy", None) is not fifo_all_strategy:
                        loop.rng.shuffle(tasks)
                    done, pending = await asyncio.wait(tasks, timeout=900)
                    for t in pending:
                        t.cancel()
                        problems.append(("session-stuck", "a session's commands never completed"))
                    for t in done:
                        for c, r in t.result():
                            n += 1
                            bye = any(x.kind == "status" and x.status == "BYE" for x in r.responses)
                            tagged = [x for x in r.responses if x.kind == "tagged"]
                            if r.status not in ("OK", "NO", "BAD") and not (bye and r.closed):
                                problems.append(("no-tagged-reply", f"{c!r}: status={r.status} closed={r.closed}"))
                            if len(tagged) > 1 or any(x.tag != r.tag for x in tagged):
                                problems.append(("duplicate-or-foreign-tagged", f"{c!r}: {tagged}"))
                            if r.latency is not None and r.latency >= LATENCY_BOUND:
                                problems.append(("latency", f"{c!r}: {r.latency:.1f} virtual seconds"))
                    if len(rig.watchdog_hits) > hits0:
                        problems.append(("watchdog", rig.watchdog_hits[-1][:200]))
                    return problems, n
                finally:
                    try:
                        await rig.stop()
                    except Exception:
                        pass

            try:
                strategy = fifo_all_strategy if i == 0 else rnd.choice([random_strategy, random_strategy, one_at_a_time_strategy])
                sd = rnd.randrange(1 << 30)
                problems, n = run_case(main, seed=sd, scheduled=True, wall_budget=90, strategy=strategy)
            except WallWatchdog:
                counts["sched_wall_watchdog"] += 1
                continue
            except Exception:
                counts["sched_harness_error"] += 1
                continue
            finally:
                shutil.rmtree(d, ignore_errors=True)
            counts["schedules"] += 1
            counts["sched_commands"] += n
            ncmds += n
            hashes.add(common.h(holder["loop"].trace))
            if problems and witness is None:
                witness = {"kind": problems[0][0], "detail": problems[0][1], "all": problems[:4], "cmd": str(plans), "class": "concurrent", "mode": "restarted" if restart else "running", "restarted": restart,
                           "reply": None, "schedule": list(holder["loop"].trace)[:200], "seed": sd, "strategy": strategy.__name__}
        counts["distinct_schedules"] += len(hashes)
        sample = {"state": "restarted" if restart else "running", "sessions": plans, "distinct_schedules": len(hashes), "commands": ncmds}
        key = common.h(["sched", plans, restart])
        if witness:
            cases.append(Case.make(f"sched{k}", VIOLATED, spec=dict(spec, scripts=[k]), nontrivial=True, key=key, sample=sample, witness=witness))
        elif not hashes:
            cases.append(Case.make(f"sched{k}", INCONCLUSIVE, spec=dict(spec, scripts=[k]), reason="no schedule completed", sample=sample))
        else:
            cases.append(Case.make(f"sched{k}", HELD, spec=dict(spec, scripts=[k]), nontrivial=len(hashes) > 1, key=key, sample=sample))
    return {"cases": cases, "counts": dict(counts)}


def plan(tier, seed, scale):
    specs = base.plan_scripts(PROP, tier, seed, scale, quick=256, thorough=3200, extra={"compare_timeouts": True})
    n = int((48 if tier == "quick" else 900) * scale)
    shards = 8 if tier == "quick" else 16
    for s in range(shards):
        specs.append({"prop": PROP, "tier": tier, "seed": seed, "shard": 100 + s, "mode": "sched", "scripts": list(range(n))[s::shards], "nsched": 5 if tier == "quick" else 20})
    return specs


def replay_specs(rp):
    return base.replay_specs_from(rp)


def classify(w):
    """Map a witness to a known-finding mechanism id by its cause."""
    kind = w.get("kind")
    cmd = (w.get("cmd") or "")
    reply = w.get("reply") or ""
    logs = " ".join(w.get("log") or [])
    if kind in ("closed-without-bye",) and "Unhandled exception" in reply:
        return "C06-unhandled-exception-drops-connection"
    if kind in ("watchdog", "latency", "no-tagged-reply") and w.get("restarted") and re.search(r"\bp\b", cmd) and w.get("class") in ("status", "delete", "select", "examine", "rename", "copy", "move", "uidcopy", "uidmove", "append"):
        return "C06-noselect-after-restart-no-mgmt-task"
    return None


def finish(tier, seed, cases, results, errors, wall):
    counts = common.merge_counts(results)
    return common.finish(
        PROP, tier, seed, LEVEL, cases, wall=wall, errors=errors, classify=classify,
        rule=("one case = one command sent in a generated session/mailbox state (scripts of commands on a fresh server, optional restart); "
              "non-trivial = arguments invalid for the state (out-of-range/0/* sets, missing/deleted/\\Noselect mailbox, wrong session state, malformed); "
              "distinct = (command class, reply status, session mode, validity, restarted)"),
        monitor_counts={k: v for k, v in counts.items()},
        floors={"commands": 50, "followup_noop": 20},
        assumptions=["virtual clock (VLoop): thread work takes zero virtual time", "in-memory stream stands in for the loopback TCP hop",
                     "asimap.client.COMMAND_TIMEOUT varied to 7 and 1000 for a sample of scripts"],
    )
