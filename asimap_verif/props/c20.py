"""C20 -- a POP3 session is a stable snapshot and deletes only on QUIT.

Oracle: a POP3 reply reader (wire.parse_pop3_reply) + a model of the session:
the (number, size, UIDL) table of session start, the DELE marks, and the INBOX
as an IMAP observer sees it."""
import asyncio
import re

from .. import common
from ..common import Case, HELD, INCONCLUSIVE, VIOLATED
from ..gen import CidFactory, rng
from ..rig import Rig
from . import base
from .hist_base import PACKS, set_pack_limit

PROP = "C20"
LEVEL = "exploration"

BODIES = [
    ["plain line"],
    [".leading dot", "..two dots", ".", "after lone dot"],
    ["no final newline"],
    ["caf\xe9 8-bit \xa9"],
    ["x" * 900, "y" * 1200],
    [""],
    [".", ".", "."],
]


async def observe_inbox(o):
    r = await o.cmd("EXAMINE inbox")
    rows = []
    ex = [x.num for x in r.responses if x.kind == "num" and x.name == "EXISTS"]
    if r.ok and ex and ex[-1]:
        rf = await o.cmd("UID FETCH 1:* (UID RFC822.SIZE BODY.PEEK[HEADER.FIELDS (X-CID)])")
        for n, d in sorted(rf.fetches(), key=lambda t: t[0]):
            if "UID" in d:
                m = re.search(rb"X-CID:\s*(\S+)", bytes(d.get("BODY[HEADER.FIELDS (X-CID)]") or b""))
                rows.append((d["UID"], m.group(1).decode() if m else None, d.get("RFC822.SIZE")))
    await o.cmd("UNSELECT")
    return rows


async def script(loop, ctx):
    k = ctx["script"]
    rnd = rng(ctx["seed"], "c20", k)
    counts = ctx["counts"]
    pack = [100, 100, 4][k % 3]
    set_pack_limit(pack)
    rig = await Rig(ctx["dir"] + "/mail", loop).start()
    cids = CidFactory(f"p{k}-")
    viols = []
    log = []

    def bad(kind, detail):
        viols.append((kind, detail))

    stats = {"dele": 0, "imap_changes": 0}
    try:
        a = rig.session("A")
        o = rig.session("O")
        n0 = rnd.choice([0, 1, 3, 5, 5, 8, 8])
        for i in range(n0):
            body = rnd.choice(BODIES)
            cid, raw = cids.make(rnd, body_lines=body + [f"token {cids.prefix}{cids.n + 1}"] if rnd.random() < 0.5 else body)
            if body == ["no final newline"]:
                raw = raw.rstrip(b"\r\n")
            if rnd.random() < 0.5:
                await a.append("inbox", raw)
            else:
                rig.deliver_raw("inbox", raw.replace(b"\r\n", b"\n") if rnd.random() < 0.5 else raw)
        await a.cmd("SELECT inbox")
        # sparse keys/uids: expunge some before the POP3 session starts
        if n0 >= 5 and rnd.random() < 0.6:
            await a.cmd(f"STORE {rnd.randint(1, 2)} +FLAGS.SILENT (\\Deleted)")
            await a.cmd("EXPUNGE")
        start = await observe_inbox(o)
        table = [(i + 1, u, c, None) for i, (u, c, sz) in enumerate(start)]
        sizes = {}
        p = rig.pop3("P")
        marks = set()
        ended = None
        nsteps = rnd.randint(4, 16)
        gone_uids = set()

        def unmarked():
            return [t for t in table if t[0] not in marks]

        # one script in six begins with a fixed scenario: several messages marked, an IMAP session expunges the
        # lowest marked one, (a few random steps,) QUIT -- the other marked messages, and only they, must go
        forced = []
        force_quit = False
        if k % 6 == 1 and len(table) >= 4:
            forced = [("pop", "DELE", 1), ("pop", "DELE", 2), ("pop", "DELE", 4), ("imap", "expunge", "lowest-marked")]
            force_quit = True
            nsteps = max(nsteps, len(forced) + rnd.choice([0, 0, 2]))
            counts["forced_marked_then_expunged_then_quit"] += 1
        if k % 6 == 4 and len(table) >= 3:
            # sizes announced, one of those messages expunged by IMAP, reads of it refused, sizes asked again: a size once
            # announced stays what it was
            forced = [("pop", "LIST", 1), ("pop", "STAT", 1), ("imap", "expunge", ("msg", 2)), ("pop", "TOP", 2), ("pop", "RETR", 2), ("pop", "LIST", 1), ("pop", "LISTN", 2), ("pop", "STAT", 1), ("pop", "UIDL", 1)]
            nsteps = max(nsteps, len(forced) + rnd.choice([0, 2]))
            counts["forced_sized_then_expunged_then_read"] += 1
        if k % 6 == 2 and len(table) >= 3:
            # the size of a message first announced by RETR (not by LIST/STAT); IMAP expunges it; LIST/STAT afterwards
            forced = [("pop", "RETR", 2), ("imap", "expunge", ("msg", 2)), ("pop", "LIST", 1), ("pop", "LISTN", 2), ("pop", "STAT", 1), ("pop", "RETR", 3), ("pop", "STAT", 1)]
            nsteps = max(nsteps, len(forced) + rnd.choice([0, 2]))
            counts["forced_retr_then_expunged_then_listed"] += 1
        for step in range(nsteps):
            f = forced.pop(0) if forced else None
            r = rnd.random()
            if f:
                r = 0.0 if f[0] == "imap" else 1.0
            if r < 0.25:
                # an IMAP session changes INBOX meanwhile
                kind = rnd.choice(["append", "expunge", "deliver", "advance", "store", "reuse", "reuse", "rename_inbox"])
                if f:
                    kind = f[1]
                elif force_quit and kind in ("rename_inbox", "reuse"):
                    kind = "store"
                stats["imap_changes"] += 1
                log.append("IMAP " + kind)
                if kind == "append":
                    cid, raw = cids.make(rnd)
                    await a.append("inbox", raw)
                elif kind == "deliver":
                    cid, raw = cids.make(rnd)
                    rig.deliver_raw("inbox", raw)
                    await rig.advance(6)
                elif kind == "advance":
                    await rig.advance(30)
                elif kind == "reuse":
                    # expunge the highest-numbered message, then a delivery
                    # takes the freed MH message number
                    cur = await observe_inbox(o)
                    if cur:
                        vu = cur[-1][0]
                        await a.cmd(f"UID STORE {vu} +FLAGS.SILENT (\\Deleted)")
                        await a.cmd("EXPUNGE")
                        gone_uids.add(vu)
                        cid, raw = cids.make(rnd)
                        rig.deliver_raw("inbox", raw)
                        await rig.advance(6)
                        counts["number_reuse"] += 1
                elif kind == "rename_inbox":
                    # every message of the snapshot leaves INBOX; what arrives afterwards is not in the snapshot
                    cur = await observe_inbox(o)
                    r_ = await a.cmd(f"RENAME inbox saved{step}")
                    if r_.status == "OK":
                        gone_uids.update(c[0] for c in cur)
                        counts["inbox_renamed_under_pop3"] += 1
                        for _ in range(rnd.choice([1, 2, 3])):
                            cid, raw = cids.make(rnd)
                            if rnd.random() < 0.5:
                                rig.deliver_raw("inbox", raw)
                            else:
                                await a.append("inbox", raw)
                        await rig.advance(6)
                elif kind == "store":
                    await a.cmd("STORE 1:* +FLAGS.SILENT (\\Flagged)")
                else:
                    cur = await observe_inbox(o)
                    if cur:
                        # often one of the messages the POP3 session has marked (QUIT must still remove the other marked ones)
                        live = {c[0] for c in cur}
                        marked_uids = [t[1] for t in table if t[0] in marks and t[1] in live]
                        vu = rnd.choice(marked_uids) if marked_uids and rnd.random() < 0.6 else rnd.choice(cur)[0]
                        if f and isinstance(f[2], tuple) and table[f[2][1] - 1][1] in live:
                            vu = table[f[2][1] - 1][1]
                        elif f and marked_uids:
                            vu = min(marked_uids)
                        if vu in marked_uids:
                            counts["imap_expunged_a_marked_message"] += 1
                        await a.cmd(f"UID STORE {vu} +FLAGS.SILENT (\\Deleted)")
                        await a.cmd("EXPUNGE")
                        gone_uids.add(vu)
                continue
            nmax = len(table)
            num = rnd.choice([1, nmax, rnd.randint(1, max(1, nmax)), rnd.randint(1, max(1, nmax)), rnd.randint(1, max(1, nmax)), 0, nmax + 1, -1, 99999]) if nmax else rnd.choice([0, 1])
            cmd = rnd.choice(["STAT", "LIST", "UIDL", "RETR", "RETR", "DELE", "DELE", "RSET", "NOOP", "TOP", "LISTN", "UIDLN", "BOGUS", "CAPA"])
            if f:
                cmd, num = f[1], f[2]
            elif force_quit and cmd == "RSET":
                cmd = "NOOP"
            if cmd == "STAT":
                rep = await p.cmd("STAT")
                m = re.match(r"\+OK (\d+) (\d+)", rep.line if rep else "")
                if not m:
                    bad("stat-malformed", str(rep))
                else:
                    um = unmarked()
                    if int(m.group(1)) != len(um):
                        bad("stat-count-differs", f"STAT says {m.group(1)}, snapshot minus marks has {len(um)}")
                    if all(t[0] in sizes for t in um) and int(m.group(2)) != sum(sizes[t[0]] for t in um):
                        bad("stat-total-differs", f"STAT total {m.group(2)} vs sum of listed sizes {sum(sizes[t[0]] for t in um)}")
                    counts["stat_checks"] += 1
            elif cmd in ("LIST", "UIDL"):
                rep = await p.cmd(cmd)
                if rep is None or not rep.ok or rep.body is None:
                    bad(cmd.lower() + "-failed", str(rep))
                    continue
                rows = [ln.split() for ln in rep.body.decode("latin-1").split("\r\n") if ln]
                nums = [int(x[0]) for x in rows]
                if nums != [t[0] for t in unmarked()]:
                    bad(cmd.lower() + "-numbers-differ", f"{nums} vs snapshot minus marks {[t[0] for t in unmarked()]}")
                for x in rows:
                    n_ = int(x[0])
                    if cmd == "LIST":
                        sz = int(x[1])
                        if n_ in sizes and sizes[n_] != sz:
                            bad("list-size-changed", f"message {n_}: {sizes[n_]} then {sz}")
                        sizes.setdefault(n_, sz)
                    else:
                        if n_ <= len(table) and int(x[1]) != table[n_ - 1][1]:
                            bad("uidl-differs-from-imap-uid", f"message {n_}: UIDL {x[1]}, IMAP UID at session start {table[n_ - 1][1]}")
                counts["table_checks"] += 1
            elif cmd in ("LISTN", "UIDLN"):
                rep = await p.cmd(f"{cmd[:-1]} {num}")
                valid = 1 <= num <= nmax and num not in marks
                if rep is None:
                    bad("no-reply", f"{cmd} {num}")
                elif rep.ok != valid:
                    bad("validity-differs", f"{cmd[:-1]} {num}: {rep.line} but valid={valid}")
                elif rep.ok:
                    parts = rep.line.split()
                    if cmd == "UIDLN" and int(parts[2]) != table[num - 1][1]:
                        bad("uidl-differs-from-imap-uid", f"{rep.line} vs {table[num - 1][1]}")
                    if cmd == "LISTN":
                        if num in sizes and sizes[num] != int(parts[2]):
                            bad("list-size-changed", f"message {num}: {sizes[num]} then {parts[2]}")
                        sizes.setdefault(num, int(parts[2]))
            elif cmd in ("RETR", "TOP"):
                line = f"RETR {num}" if cmd == "RETR" else f"TOP {num} {rnd.choice([0, 1, 3, 50])}"
                rep = await p.cmd(line)
                valid = 1 <= num <= nmax and num not in marks
                if rep is None:
                    bad("no-reply", line)
                    continue
                if rep.ok and not valid:
                    bad("validity-differs", f"{line}: {rep.line} but the number is invalid or marked")
                if rep.ok and valid:
                    t = table[num - 1]
                    m = re.search(rb"(?im)^X-CID:\s*(\S+)", rep.body or b"")
                    got = m.group(1).decode() if m else None
                    counts["retr_identity_checks"] += 1
                    if got != t[2]:
                        bad("retr-returned-another-message", f"{line}: got {got}, message {num} of the snapshot is {t[2]} (uid {t[1]}); pack_limit={pack}")
                    if cmd == "RETR":
                        ms = re.match(r"\+OK (\d+) octets", rep.line)
                        if not ms:
                            bad("retr-status-malformed", rep.line)
                        else:
                            ann = int(ms.group(1))
                            counts["size_checks"] += 1
                            if ann != len(rep.body):
                                bad("retr-size-differs-from-payload", f"{line}: announced {ann}, delivered {len(rep.body)} octets after un-stuffing (tail {rep.body[-12:]!r})")
                            if num in sizes and sizes[num] != ann:
                                bad("retr-size-differs-from-list", f"{line}: LIST said {sizes[num]}, RETR says {ann}")
                            sizes.setdefault(num, ann)
                    if not rep.raw_body.endswith(b"\r\n.\r\n"):
                        bad("multiline-not-terminated", repr(rep.raw_body[-10:]))
                elif not rep.ok and valid and table[num - 1][1] not in gone_uids:
                    bad("retr-refused-for-present-message", f"{line}: {rep.line}")
            elif cmd == "DELE":
                rep = await p.cmd(f"DELE {num}")
                valid = 1 <= num <= nmax and num not in marks
                if rep is None or rep.ok != valid:
                    bad("validity-differs", f"DELE {num}: {rep.line if rep else None} but valid={valid}")
                elif rep.ok:
                    marks.add(num)
                    stats["dele"] += 1
                # DELE takes effect only at QUIT
                if rnd.random() < 0.5:
                    cur = await observe_inbox(o)
                    if any(table[m - 1][1] not in {u for u, _, _ in cur} and table[m - 1][1] not in gone_uids for m in marks):
                        bad("dele-removed-before-quit", f"marks {sorted(marks)}, INBOX uids {[u for u, _, _ in cur]}")
                    counts["dele_not_yet_checks"] += 1
            elif cmd == "RSET":
                rep = await p.cmd("RSET")
                if rep is None or not rep.ok:
                    bad("rset-failed", str(rep))
                marks.clear()
            elif cmd in ("NOOP", "CAPA"):
                rep = await p.cmd(cmd)
                if rep is None or not rep.ok:
                    bad(cmd.lower() + "-failed", str(rep))
            else:
                rep = await p.cmd(rnd.choice(["BOGUS", "RETR", "DELE x", "TOP 1", "LIST 1 2", "USER x", ""]) or "XYZZY")
                if rep is None:
                    bad("no-reply", "invalid command")
                elif rep.ok and rep.line.startswith("+OK") and False:
                    pass
            if p.writer.closed and not viols:
                bad("connection-lost", log[-3:])
            if viols:
                break
        if not viols:
            before = await observe_inbox(o)
            ending = rnd.choice(["quit", "quit", "disconnect", "none"])
            if force_quit:
                ending = "quit"
            if ending == "quit":
                rep = await p.cmd("QUIT")
                if rep is None or not rep.ok:
                    bad("quit-failed", str(rep))
                await rig.settle()
                after = await observe_inbox(o)
                expect_gone = {table[m - 1][1] for m in marks}
                b_u = [u for u, _, _ in before]
                a_u = [u for u, _, _ in after]
                counts["quit_checks"] += 1
                if a_u != [u for u in b_u if u not in expect_gone]:
                    bad("quit-removed-wrong-messages", f"before {b_u}, marked uids {sorted(expect_gone)}, after {a_u}")
            elif ending == "disconnect":
                p.eof()
                await rig.settle()
                after = await observe_inbox(o)
                counts["disconnect_checks"] += 1
                if [u for u, _, _ in after] != [u for u, _, _ in before]:
                    bad("disconnect-changed-inbox", f"{before} -> {after}")
            ended = ending
        # the IMAP side keeps working
        r = await a.cmd("NOOP")
        if r.status != "OK":
            bad("imap-session-broken-after-pop3", r.brief())
    finally:
        set_pack_limit(100)
        try:
            await rig.stop()
        except Exception:
            counts["stop_failed"] += 1
    for we in rig.wire_errors:
        viols.append(("malformed-pop3-reply:" + we["rule"], we["msg"] + ": " + we["context"][:80]))
    counts["pop3_cmds"] += rig.counts.get("pop3cmd", 0)
    counts["deles"] += stats["dele"]
    cid = f"s{k}"
    nontriv = stats["dele"] >= 1 and stats["imap_changes"] >= 1
    sample = {"messages_at_start": len(table), "pop3": (p.log[:30] if "p" in dir() else []), "imap_changes": stats["imap_changes"]}
    if viols:
        return [Case.make(cid, VIOLATED, spec=ctx["spec"], nontrivial=nontriv, key=common.h(sample), sample=sample,
                          witness={"kind": viols[0][0], "detail": str(viols[0][1])[:500], "all": [v[0] for v in viols], "pop3": p.log[-16:], "pack_limit": pack})]
    return [Case.make(cid, HELD, spec=ctx["spec"], nontrivial=nontriv, key=common.h(sample), sample=sample)]


# ---------------------------------------------------------------- scheduled tier
# A POP3 session reads its snapshot (RETR / TOP / LIST n / UIDL n) while IMAP
# sessions remove or move messages, under the deterministic scheduler: whatever
# the interleaving, message number n yields the message that had number n when
# the POP3 session began, or an error reply -- never another message.
SCHED_IMAP = [
    ["EXPUNGE"], ["UID EXPUNGE 2"], ["UID MOVE 1:2 other"], ["UID STORE 1,3 +FLAGS (\\Deleted)", "EXPUNGE"], ["UID MOVE 4 other", "EXPUNGE"],
    ["UID STORE 1:* +FLAGS (\\Deleted)", "CLOSE"], ["UID COPY 1:* other", "EXPUNGE"],
]


async def frontend_stage(loop, ctx):
    """The POP3 session as the client has it: through the real front end
    (pop3_server.POP3Client.start(): line reader, framing towards the per-user
    process) into the real per-user server.  The client stream is cut into
    arbitrary segments and ends -- often in the middle of a command: QUIT
    without its line end, half a DELE -- with the connection going away.  Only
    complete lines are commands; messages go only when a complete QUIT came
    after the DELEs."""
    import asimap.pop3_server as P

    from ..rig import MemWriter
    from .c19 import FakeServer, deframe

    k = ctx["script"]
    rnd = rng(ctx["seed"], "c20fe", k)
    counts = ctx["counts"]
    rig = await Rig(ctx["dir"] + "/mail", loop).start()
    cids = CidFactory(f"f{k}-")
    cases = []
    try:
        a = rig.session("A")
        o = rig.session("O")
        for i in range(ctx.get("fe_n", 10)):
            rows = await observe_inbox(o)
            while len(rows) < 4:
                cid, m = cids.make(rnd)
                await a.append("inbox", m)
                rows = await observe_inbox(o)
            n = len(rows)
            lines = []
            marked = set()
            for _ in range(rnd.randint(1, 6)):
                c = rnd.choice(["STAT", "LIST", "UIDL", "NOOP", "DELE", "DELE", "DELE", "RSET", "RETR", "TOP"])
                if c == "DELE":
                    j = rnd.randint(1, n)
                    lines.append(f"DELE {j}")
                    marked.add(j)
                elif c == "RSET":
                    lines.append("RSET")
                    if rnd.random() < 0.5:
                        marked = set()
                    else:
                        lines.pop()
                elif c in ("RETR", "TOP"):
                    lines.append(f"{c} {rnd.randint(1, n)}" + (" 1" if c == "TOP" else ""))
                else:
                    lines.append(c)
            if not marked:
                j = rnd.randint(1, n)
                lines.append(f"DELE {j}")
                marked.add(j)
            ending = rnd.choice(["QUIT", "QUIT\r", "QUIT\r\n", "QUIT\r\n", "", "QU", "quit", "DELE 1", "NOOP\r", "RSET", "QUIT \r", "\r"])
            complete_quit = ending == "QUIT\r\n"
            stream = ("".join(x + "\r\n" for x in lines) + ending).encode()
            expected = [x.encode() for x in lines] + ([b"QUIT"] if complete_quit else [])
            # --- the real front end
            cw = MemWriter("client", loop)
            rd = asyncio.StreamReader(limit=65536)
            pc = P.POP3Client(FakeServer(), "p", "10.0.0.9", 6, rd, cw)
            si = pc.subprocess_intf
            si.state = "transaction"
            si.writer = MemWriter("sub", loop)
            t = asyncio.create_task(pc.start())
            pos = 0
            while pos < len(stream):
                step = rnd.choice([1, 2, 5, 9, 40, 400])
                rd.feed_data(stream[pos : pos + step])
                pos += step
                for _ in range(rnd.choice([0, 1, 3])):
                    await asyncio.sleep(0)
            for _ in range(10):
                await asyncio.sleep(0)
            rd.feed_eof()
            try:
                await asyncio.wait_for(t, 30)
            except Exception:
                t.cancel()
            frames, ferr = deframe(si.writer.buf)
            counts["frontend_streams"] += 1
            counts["frontend_ending:" + repr(ending)] += 1
            problem = None
            if ferr or frames != expected:
                problem = ("pop3-front-end-relayed-other-than-the-complete-lines", f"stream {stream!r}: relayed {frames} {ferr or ''}, complete lines {expected}")
            # --- what it relayed goes to the real per-user server, then the connection is gone
            p3 = rig.pop3()
            for f in frames:
                try:
                    await p3.cmd(f.decode("latin-1"))
                except Exception as e:  # noqa: BLE001
                    counts["frontend_relayed_command_failed"] += 1
                    break
            p3.eof()
            await rig.settle()
            await rig.advance(3)
            after = await observe_inbox(o)
            want = [r_ for j, r_ in enumerate(rows, 1) if not (complete_quit and j in marked)]
            counts["frontend_sessions_judged"] += 1
            if complete_quit:
                counts["frontend_sessions_with_complete_quit"] += 1
            if [x[:2] for x in after] != [x[:2] for x in want] and problem is None:
                problem = ("messages-removed-without-a-complete-quit" if not complete_quit else "quit-removed-other-than-the-marked-messages",
                           f"stream {stream!r}: INBOX before {[x[0] for x in rows]}, after {[x[0] for x in after]}, expected {[x[0] for x in want]}")
            elif [x[:2] for x in after] != [x[:2] for x in want]:
                problem = (problem[0], problem[1] + f"; INBOX before {[x[0] for x in rows]}, after {[x[0] for x in after]}, expected {[x[0] for x in want]}")
            key = common.h([k, i, stream.decode("latin-1")])
            sample = {"stream": stream.decode("latin-1"), "relayed": [f.decode("latin-1") for f in frames], "origin": "frontend"}
            if problem:
                cases.append(Case.make(f"fe{k}.{i}", VIOLATED, spec=ctx["spec"], nontrivial=True, key=key, sample=sample, witness={"kind": problem[0], "detail": problem[1], "stream": stream.decode("latin-1")}))
            else:
                cases.append(Case.make(f"fe{k}.{i}", HELD, spec=ctx["spec"], nontrivial=bool(marked), key=key, sample=sample))
    finally:
        try:
            await rig.stop()
        except Exception:
            counts["stop_failed"] += 1
    return cases


def run_sched_shard(spec):
    import asyncio
    import re
    import shutil
    import tempfile
    from collections import Counter

    from ..rig import Rig, run_case
    from ..vloop import WallWatchdog, fifo_all_strategy, one_at_a_time_strategy, random_strategy
    from . import c10

    counts = Counter()
    cases = []
    scratch = spec["scratch"]
    for k in spec["scripts"]:
        rnd = rng(spec["seed"], "c20sched", k)
        imap_cmds = [list(rnd.choice(SCHED_IMAP)) for _ in range(rnd.choice([1, 1, 2]))]
        nums = [rnd.randint(1, 5) for _ in range(rnd.randint(2, 4))]
        pop_cmds = []
        for n in nums:
            pop_cmds.append(rnd.choice([f"RETR {n}", f"RETR {n}", f"TOP {n} 1", f"UIDL {n}", f"LIST {n}"]))
        hashes = set()
        witness = None
        checks = 0
        # one script in three: the folder qualifies for packing as soon as the IMAP side has removed something
        # (threshold lowered), so the renumbering of the files falls among the POP3 reads
        packing = k % 3 == 2
        if packing:
            # low-numbered messages go, so the survivors are renumbered by the pack; the POP3 session keeps reading them
            imap_cmds = [list(rnd.choice([["UID EXPUNGE 2"], ["UID MOVE 1 other"], ["UID STORE 1 +FLAGS (\\Deleted)", "UID EXPUNGE 1"], ["UID EXPUNGE 2", "NOOP"]]))]
            pop_cmds = [rnd.choice([f"RETR {n}", f"TOP {n} 1", f"RETR {n}", f"LIST {n}"]) for n in [rnd.choice([3, 5, 5, 4]) for _ in range(8)]]
            counts["sched_scripts_with_packing"] += 1
        for i in range(spec.get("nsched", 6) * (3 if packing else 1)):
            d = tempfile.mkdtemp(prefix="m", dir=scratch)
            holder = {}

            async def main(loop, d=d):
                holder["loop"] = loop
                set_pack_limit(3 if packing else 100)
                rig = await Rig(d + "/mail", loop).start()
                problems = []
                try:
                    cids, table = await c10.setup_state(rig)
                    snap = [table[("INBOX", n)] for n in range(1, 6)]
                    p = rig.pop3("P")
                    st = await p.cmd("STAT")
                    uidl = await p.cmd("UIDL")
                    uids = {}
                    if uidl is not None and uidl.ok and uidl.body is not None:
                        for ln in uidl.body.decode("latin-1").split("\r\n"):
                            if ln.strip():
                                a, b = ln.split()
                                uids[int(a)] = b
                    sessions = []
                    for j, cmds in enumerate(imap_cmds):
                        s_ = rig.session(f"I{j}")
                        await s_.cmd("SELECT INBOX")
                        sessions.append((s_, cmds))
                    await rig.settle()
                    out = []

                    async def pace():
                        # client think time as a schedulable event: a no-op thread job whose
                        # completion the scheduler releases among the server's own completions
                        for _ in range(loop.rng.randint(0, 3)):
                            await loop.run_in_executor(None, int)

                    async def pop():
                        for c in pop_cmds:
                            if packing:
                                # idle moments: the mailbox's management task may decide to pack the folder now; the
                                # think time after them ends at a point the scheduler picks among the server's completions
                                if loop.rng.random() < 0.15:
                                    await asyncio.sleep(loop.rng.choice([3, 7]))
                                await loop.run_in_executor(None, int)
                            await pace()
                            out.append((c, await p.cmd(c)))

                    async def imap(s_, cmds):
                        for c in cmds:
                            await s_.cmd(c)

                    order = [pop()] + [imap(s_, cmds) for s_, cmds in sessions]
                    if loop.strategy is not fifo_all_strategy:
                        loop.rng.shuffle(order)
                    done, pending = await asyncio.wait([asyncio.create_task(x) for x in order], timeout=600)
                    for t in pending:
                        t.cancel()
                    for t in done:
                        if t.exception() is not None:
                            raise t.exception()
                    n_checks = 0
                    # which messages of the snapshot are still in INBOX when everything is over: for those the session
                    # can not have been told "not available" at any moment
                    still = set()
                    try:
                        ob = rig.session("OB")
                        await ob.cmd("EXAMINE INBOX")
                        rfo = await ob.cmd("FETCH 1:* (BODY.PEEK[HEADER.FIELDS (X-CID)])")
                        for _, d_ in rfo.fetches():
                            m_ = re.search(rb"X-CID:\s*(\S+)", bytes(d_.get("BODY[HEADER.FIELDS (X-CID)]") or b""))
                            if m_:
                                still.add(m_.group(1).decode())
                    except Exception:
                        still = set()
                    for c, rep in out:
                        word, n = c.split()[0], int(c.split()[1])
                        if rep is None:
                            problems.append(("pop3-no-reply", f"{c}: connection closed={p.writer.closed}; log={[x[2][:160] for x in rig.log_records[-2:]]}"))
                            break
                        if not rep.ok:
                            # "-ERR message not available": the snapshot entry is gone, which is said, not faked -- unless it is not gone
                            if word in ("RETR", "TOP") and snap[n - 1] in still:
                                n_checks += 1
                                problems.append(("retr-refused-for-present-message", f"{c}: {rep.line!r} although message {n} ({snap[n - 1]}) is in INBOX to the end"))
                            continue
                        n_checks += 1
                        if word in ("RETR", "TOP"):
                            m = re.search(rb"X-CID:\s*(\S+)", rep.body or b"")
                            got = m.group(1).decode() if m else None
                            if got != snap[n - 1]:
                                problems.append(("retr-returned-another-message", f"{c}: message number {n} is {snap[n - 1]} in the snapshot, the reply carries {got}"))
                        elif word == "UIDL":
                            parts = rep.line.split()
                            if len(parts) >= 3 and uids.get(n) is not None and parts[2] != uids[n]:
                                problems.append(("uidl-changed", f"{c}: was {uids[n]}, now {parts[2]}"))
                    return problems, n_checks
                finally:
                    set_pack_limit(100)
                    try:
                        await rig.stop()
                    except Exception:
                        pass

            packs0 = PACKS["n"]
            try:
                strategy = fifo_all_strategy if i == 0 else rnd.choice([random_strategy, random_strategy, one_at_a_time_strategy])
                sd = rnd.randrange(1 << 30)
                problems, n_checks = run_case(main, seed=sd, scheduled=True, wall_budget=60, strategy=strategy)
            except WallWatchdog:
                counts["sched_wall_watchdog"] += 1
                continue
            except Exception:
                counts["sched_harness_error"] += 1
                continue
            finally:
                shutil.rmtree(d, ignore_errors=True)
            counts["schedules"] += 1
            counts["sched_snapshot_checks"] += n_checks
            counts["sched_packs"] += PACKS["n"] - packs0
            checks += n_checks
            hashes.add(common.h(holder["loop"].trace))
            if problems and witness is None:
                witness = {"kind": problems[0][0], "detail": problems[0][1], "all": [x[0] for x in problems], "pop3": pop_cmds, "imap": imap_cmds, "schedule": list(holder["loop"].trace)[:200], "seed": sd, "strategy": strategy.__name__}
        counts["distinct_schedules"] += len(hashes)
        sample = {"pop3": pop_cmds, "imap": imap_cmds, "distinct_schedules": len(hashes), "snapshot_checks": checks}
        key = common.h([pop_cmds, imap_cmds])
        if witness:
            cases.append(Case.make(f"sched{k}", VIOLATED, spec=dict(spec, scripts=[k]), nontrivial=True, key=key, sample=sample, witness=witness))
        elif not hashes:
            cases.append(Case.make(f"sched{k}", INCONCLUSIVE, spec=dict(spec, scripts=[k]), reason="no schedule completed", sample=sample))
        else:
            cases.append(Case.make(f"sched{k}", HELD, spec=dict(spec, scripts=[k]), nontrivial=len(hashes) > 1 and checks > 0, key=key, sample=sample))
    return {"cases": cases, "counts": dict(counts)}


def plan(tier, seed, scale):
    specs = base.plan_scripts(PROP, tier, seed, scale, quick=416, thorough=8000)
    n = int((48 if tier == "quick" else 800) * scale)
    shards = 8 if tier == "quick" else 16
    for s in range(shards):
        specs.append({"prop": PROP, "tier": tier, "seed": seed, "shard": 100 + s, "mode": "sched", "scripts": list(range(n))[s::shards], "nsched": 6 if tier == "quick" else 20})
    for s in range(4 if tier == "quick" else 16):
        specs.append({"prop": PROP, "tier": tier, "seed": seed, "shard": 200 + s, "mode": "frontend", "scripts": [200 + s], "fe_n": 20 if tier == "quick" else 60})
    return specs


def run_shard(spec):
    if spec.get("mode") == "sched":
        return run_sched_shard(spec)
    if spec.get("mode") == "frontend":
        return base.run_scripts(spec, frontend_stage, user_kwargs={"fe_n": spec.get("fe_n", 12)})
    return base.run_scripts(spec, script)


def replay_specs(rp):
    return base.replay_specs_from(rp)


def classify(w):
    return None


def finish(tier, seed, cases, results, errors, wall):
    counts = common.merge_counts(results)
    return common.finish(
        PROP, tier, seed, LEVEL, cases, wall=wall, errors=errors, classify=classify,
        rule=("one case = one POP3 session (STAT/LIST/UIDL/RETR/TOP/DELE/RSET/NOOP with valid, invalid, repeated and marked numbers, ending in QUIT, abrupt "
              "disconnect or nothing) over an INBOX of 0-8 messages (dot lines, lone dots, missing final newline, 8-bit, long lines; sparse UIDs) interleaved with "
              "IMAP APPEND/EXPUNGE/STORE, external delivery and packing (threshold lowered in every third script); non-trivial = at least one DELE and one "
              "concurrent IMAP change; distinct = the session transcript"),
        monitor_counts=dict(counts),
        floors={"pop3_cmds": 1000, "retr_identity_checks": 100, "size_checks": 60, "quit_checks": 40, "disconnect_checks": 15, "table_checks": 100},
        assumptions=["POP3 sessions run in the user process (POP3ClientProxy) at the same byte boundary as IMAP sessions"],
    )
