"""C11 -- a crash at any instant loses nothing acknowledged and never rebinds
a UID.  Fault enumeration: for each representative history the per-user
server is run in a child process that SIGKILLs itself immediately before
persistent mutation number K (audit events under the mail directory and every
non-SELECT SQL statement, BEGIN/COMMIT included), for every K; a second
process restarts the server on the directory and evaluates the recovery oracle
over the client-side ledger that survived the kill."""
import json
import os
import shutil
import subprocess
import sys
import tempfile
import time
from collections import Counter

from .. import common
from ..common import Case, HELD, INCONCLUSIVE, VIOLATED

PROP = "C11"
LEVEL = "fault_enumeration"
JAIL = True
PY = sys.executable

HISTORIES = [("expunge", ""), ("deletebox", ""), ("renameinbox", ""), ("quietexpunge", ""), ("messages", ""), ("namespace", ""), ("inboxpack", ""), ("startup", ""), ("startup", "preexisting"), ("messages", "preexisting"),
             ("startup", "schema0"), ("startup", "schema1"), ("startup", "schema2"), ("startup", "schema3"), ("startup", "schema4"), ("startup", "schema5")]
QUICK = [("expunge", ""), ("deletebox", ""), ("renameinbox", ""), ("quietexpunge", ""), ("messages", ""), ("namespace", ""), ("startup", ""), ("startup", "schema1"), ("startup", "schema4"), ("inboxpack", "")]


def run_child(scratch, hist, variant, k, tag, points=False):
    d = os.path.join(scratch, f"{tag}", "mail")
    os.makedirs(os.path.dirname(d), exist_ok=True)
    ledger = os.path.join(scratch, f"{tag}", "ledger.jsonl")
    pts = os.path.join(scratch, f"{tag}", "points.json") if points else "-"
    env = dict(os.environ, PYTHONHASHSEED="0", PYTHONDONTWRITEBYTECODE="1")
    try:
        r = subprocess.run([PY, "-B", "-m", "asimap_verif.crash", "child", d, hist, str(k), ledger, pts, variant], env=env, capture_output=True, timeout=120)
        rc = r.returncode
        err = r.stderr.decode("latin-1")[-400:]
    except subprocess.TimeoutExpired:
        rc, err = "timeout", ""
    return d, ledger, pts, rc, err


def run_recover(scratch, d, ledger, tag, deliver, dry_ledger=None, again=False):
    result = os.path.join(scratch, f"{tag}", "recovery.json")
    env = dict(os.environ, PYTHONHASHSEED="0", PYTHONDONTWRITEBYTECODE="1")
    try:
        r = subprocess.run([PY, "-B", "-m", "asimap_verif.crash", "recover", d, ledger, result, "deliver" if deliver else "-", dry_ledger or "-", "again" if again else "-"], env=env, capture_output=True, timeout=120)
        err = r.stderr.decode("latin-1")[-600:]
    except subprocess.TimeoutExpired:
        return None, "recovery process timed out (inconclusive)"
    if not os.path.exists(result):
        return None, "no recovery result: " + err
    with open(result) as f:
        return json.load(f), err


SYSCALL_LANES = {
    # Python file I/O: message files and .mh_sequences are written by the
    # thread that runs the command; folder operations (unlink, rename, mkdir,
    # utime) are already kill points of the Python-level tier, what this lane
    # adds are the states *inside* one such mutation: created-but-empty message
    # file, truncated .mh_sequences, written but not yet synced
    "write": "write,writev,fsync,ftruncate",
    # SQLite: database pages, journal, syncs, journal removal (the commit
    # point) -- all issued by the aiosqlite thread
    "db": "pwrite64,fdatasync,unlink,unlinkat",
}


def classify_path(line):
    import re

    m = re.search(r"<([^>]*)>", line)
    p = m.group(1) if m else ""
    if not p:
        m = re.search(r'"([^"]*)"', line)
        p = m.group(1) if m else ""
    if p.endswith("asimap.db-journal"):
        return "journal"
    if p.endswith(("asimap.db", "asimap.db-wal")):
        return "db"
    if p.endswith(".mh_sequences"):
        return "mh_sequences"
    if "/mail/" in p or p.endswith("/mail"):
        return "msgfile" if re.search(r"/\d+$", p) else "folder"
    return "other"


def run_syscall_shard(spec):
    """Kill before the K-th syscall of a lane (strace fault injection: SIGKILL
    on syscall entry), so that states *between* two system calls of one
    Python-level mutation are produced: a truncated .mh_sequences, a half
    written message file, a journal written but not yet synced..."""
    scratch = spec["scratch"]
    hist, variant, lane = spec["hist"], spec["variant"], spec["lane"]
    part, parts = spec["part"], spec["parts"]
    counts = Counter()
    cases = []
    env = dict(os.environ, PYTHONHASHSEED="0", PYTHONDONTWRITEBYTECODE="1")
    # complete run: the reference ledger for in-flight tolerance
    d, dry_ledger, _, rc, err = run_child(scratch, hist, variant, 0, "dry")
    if rc != 0:
        return {"cases": [Case.make(f"{hist}/{variant}:{lane}:dry", INCONCLUSIVE, spec=spec, reason=f"dry run failed rc={rc}: {err}")], "counts": {}}
    keep = os.path.join(scratch, "dry-ledger.jsonl")
    shutil.copy(dry_ledger, keep)
    shutil.rmtree(os.path.join(scratch, "dry"), ignore_errors=True)
    sset = SYSCALL_LANES[lane]
    k = part if part else parts
    done = 0
    misses = 0
    only = spec.get("only_k")
    while True:
        if only is not None:
            k = only
        tag = f"s{k}"
        base = os.path.join(scratch, tag)
        d = os.path.join(base, "mail")
        os.makedirs(base, exist_ok=True)
        ledger = os.path.join(base, "ledger.jsonl")
        slog = os.path.join(base, "strace.txt")
        subprocess.run([PY, "-B", "-m", "asimap_verif.crash", "prepare", d, variant], env=env, capture_output=True, timeout=60)
        try:
            r = subprocess.run(["strace", "-f", "-qq", "-y", "-o", slog, "-e", "trace=" + sset, "-e", f"inject={sset}:signal=SIGKILL:when={k}",
                                PY, "-B", "-m", "asimap_verif.crash", "child", d, hist, "0", ledger, "-", variant], env=env, capture_output=True, timeout=300)
            rc = r.returncode
        except subprocess.TimeoutExpired:
            rc = "timeout"
        counts["syscall_runs"] += 1
        killed = rc in (-9, 137)
        if rc == "timeout":
            cases.append(Case.make(f"{hist}/{variant}:{lane}:s{k}", INCONCLUSIVE, spec=dict(spec, only_k=k), reason="traced child timed out"))
        elif not killed:
            # no thread reached its K-th syscall of this lane: the history is exhausted for this lane
            shutil.rmtree(base, ignore_errors=True)
            counts["lane_exhausted:" + lane] += 1
            break
        else:
            last = ""
            try:
                with open(slog, errors="replace") as f:
                    lines = f.readlines()
                unfinished = {}
                for ln in lines:
                    pid = ln.split(None, 1)[0] if ln.strip() else ""
                    if "<unfinished" in ln:
                        unfinished[pid] = ln.strip()
                    if "= ?" in ln and "+++" not in ln:
                        last = ln.strip()
                        if "resumed>" in ln and pid in unfinished:
                            # "<... write resumed>) = ?": the arguments are on the thread's "unfinished" line
                            last = unfinished[pid].replace(" <unfinished ...>", "") + " = ? (killed)"
                if not last:
                    for ln in reversed(lines):
                        if "<unfinished" in ln:
                            last = ln.strip()
                            break
            except OSError:
                pass
            sc = last.split("(", 1)[0].split()[-1] if last else "?"
            pk = classify_path(last)
            counts["syskill:" + sc] += 1
            counts["syskill_at:" + pk] += 1
            counts["syscall_kills"] += 1
            deliver = (k % 4 == 0) and hist != "startup"
            again = (k % 2 == 1) and hist != "startup"
            counts["recoveries_killed_again_before_any_command"] += 1 if again else 0
            res, rerr = run_recover(scratch, d, ledger, tag, deliver, keep, again=again)
            spec_k = dict(spec, only_k=k)
            sample = {"history": hist, "variant": variant, "lane": lane, "kill_before_syscall": k, "syscall": last[:160], "deliver_while_down": deliver}
            key = f"{hist}/{variant}/{lane}/{sc}/{pk}/{(res or {}).get('model_step')}"
            if res is None or res.get("harness_error"):
                cases.append(Case.make(f"{hist}/{variant}:{lane}:s{k}", INCONCLUSIVE, spec=spec_k, reason=rerr if res is None else "recovery harness error: " + res["harness_error"][-300:], sample=sample))
            elif not res["ok"]:
                counts["recoveries_checked"] += 1
                cases.append(Case.make(f"{hist}/{variant}:{lane}:s{k}", VIOLATED, spec=spec_k, nontrivial=pk != "other", key=key, sample=sample,
                                       witness={"kind": res["problems"][0][0], "detail": res["problems"][0][1], "all": [p[0] for p in res["problems"]], "details": [[p[0], p[1][:300]] for p in res["problems"][:12]], "history": hist, "variant": variant, "lane": lane, "k": k,
                                                "syscall": last[:200], "killed_at": pk, "inflight": res.get("inflight"), "deliver_while_down": deliver, "model_step": res.get("model_step"), "mtime_not_newer": res.get("mtime_not_newer")}))
            else:
                counts["recoveries_checked"] += 1
                counts["oracle_checks"] += res.get("checks", 0) or 0
                counts["second_recoveries"] += 1 if res.get("second_recovery") else 0
                cases.append(Case.make(f"{hist}/{variant}:{lane}:s{k}", HELD, spec=spec_k, nontrivial=pk != "other", key=key, sample=sample))
        shutil.rmtree(base, ignore_errors=True)
        done += 1
        if only is not None or (spec.get("limit") and done >= spec["limit"]):
            break
        k += parts * spec.get("stride", 1)
    return {"cases": cases, "counts": dict(counts)}


def run_shard(spec):
    if spec.get("lane"):
        return run_syscall_shard(spec)
    scratch = spec["scratch"]
    hist, variant = spec["hist"], spec["variant"]
    part, parts = spec["part"], spec["parts"]
    counts = Counter()
    cases = []
    d, ledger, pts, rc, err = run_child(scratch, hist, variant, 0, "dry", points=True)
    if not os.path.exists(pts):
        return {"cases": [Case.make(f"{hist}/{variant}:dry", INCONCLUSIVE, spec=spec, reason=f"dry run failed rc={rc}: {err}")], "counts": {}}
    with open(pts) as f:
        P = json.load(f)
    n = P["n"]
    points = {p[0]: p for p in P["points"]}
    keep = os.path.join(scratch, "dry-ledger.jsonl")
    shutil.copy(ledger, keep)
    shutil.rmtree(os.path.join(scratch, "dry"), ignore_errors=True)
    ks = [k for k in range(1, n + 2) if k % parts == part]
    limit = spec.get("limit")
    if limit and len(ks) > limit:
        import random

        rnd = random.Random(spec["seed"] * 1000 + part)
        ks = sorted(rnd.sample(ks, limit))
    first_cmd = {}
    for p in P["points"]:
        first_cmd.setdefault(p[3], p[0])
    last_cmd = {}
    for p in P["points"]:
        last_cmd[p[3]] = p[0]
    for k in ks:
        tag = f"k{k}"
        d, ledger, _, rc, err = run_child(scratch, hist, variant, k, tag)
        counts["kills"] += 1
        pt = points.get(k, (k, "end", "after the last mutation", "end"))
        counts["point:" + pt[1]] += 1
        cmdlabel = pt[3]
        counts["during:" + (cmdlabel.split(":", 1)[1] if ":" in cmdlabel else cmdlabel)] += 1
        killed = rc in (-9, 137)
        if k <= n and not killed:
            cases.append(Case.make(f"{hist}/{variant}:k{k}", INCONCLUSIVE, spec=dict(spec, only_k=k), reason=f"child was not killed at point {k} (rc={rc}): nondeterministic mutation count? {err[-200:]}"))
            shutil.rmtree(os.path.join(scratch, tag), ignore_errors=True)
            continue
        deliver = ((k % 3 == 0) or hist == "expunge") and hist != "startup"
        again = ((k % 2 == 1) or hist == "quietexpunge") and hist != "startup"
        counts["recoveries_killed_again_before_any_command"] += 1 if again else 0
        res, rerr = run_recover(scratch, d, ledger, tag, deliver, keep, again=again)
        inside = first_cmd.get(cmdlabel, 0) < k <= last_cmd.get(cmdlabel, 0)
        spec_k = dict(spec, only_k=k)
        sample = {"history": hist, "variant": variant, "kill_before_point": k, "of": n, "point": list(pt[1:]), "deliver_while_down": deliver, "killed_again_before_any_command": again}
        key = f"{hist}/{variant}/{k}"
        if res is None or res.get("harness_error"):
            cases.append(Case.make(f"{hist}/{variant}:k{k}", INCONCLUSIVE, spec=spec_k, reason=rerr if res is None else "recovery harness error: " + res["harness_error"][-300:], sample=sample))
        elif not res["ok"]:
            counts["recoveries_checked"] += 1
            cases.append(Case.make(f"{hist}/{variant}:k{k}", VIOLATED, spec=spec_k, nontrivial=inside, key=key, sample=sample,
                                   witness={"kind": res["problems"][0][0], "detail": res["problems"][0][1], "all": [p[0] for p in res["problems"]], "details": [[p[0], p[1][:300]] for p in res["problems"][:12]], "history": hist, "variant": variant, "k": k, "of": n,
                                            "point": list(pt[1:]), "inflight": res.get("inflight"), "deliver_while_down": deliver, "model_step": res.get("model_step"), "mtime_not_newer": res.get("mtime_not_newer")}))
        else:
            counts["recoveries_checked"] += 1
            counts["oracle_checks"] += res.get("checks", 0) or 0
            counts["second_recoveries"] += 1 if res.get("second_recovery") else 0
            cases.append(Case.make(f"{hist}/{variant}:k{k}", HELD, spec=spec_k, nontrivial=inside, key=key, sample=sample))
        shutil.rmtree(os.path.join(scratch, tag), ignore_errors=True)
    counts["points_in_history:" + hist + "/" + variant] = n if part == 0 else 0
    return {"cases": cases, "counts": dict(counts), "n": n, "hist": hist, "variant": variant, "exhaustive": not limit}


def plan(tier, seed, scale):
    specs = []
    hs = QUICK if tier == "quick" else HISTORIES
    for hist, variant in hs:
        parts = 3 if tier == "quick" else 6
        if hist == "startup":
            parts = 4
        for part in range(parts):
            sp = {"prop": PROP, "tier": tier, "seed": seed, "hist": hist, "variant": variant, "part": part, "parts": parts, "scripts": [0]}
            if tier == "quick" and hist not in ("startup", "expunge", "deletebox", "renameinbox", "quietexpunge"):
                sp["limit"] = int(30 * scale)
            specs.append(sp)
    # syscall-level lanes (strace fault injection)
    if tier == "quick":
        lanes = [("messages", "", "write", 8, None, 1), ("messages", "", "db", 8, 4, 29), ("inboxpack", "", "write", 6, 5, 2)]
    else:
        lanes = [(h, v, lane, 12 if lane == "db" else 6, None, 1) for h, v in (("messages", ""), ("namespace", ""), ("inboxpack", ""), ("startup", ""), ("startup", "schema1"), ("messages", "preexisting"))
                 for lane in ("write", "db")]
    for hist, variant, lane, parts, limit, stride in lanes:
        for part in range(parts):
            sp = {"prop": PROP, "tier": tier, "seed": seed, "hist": hist, "variant": variant, "lane": lane, "part": part, "parts": parts, "stride": stride, "scripts": [0]}
            if limit:
                sp["limit"] = limit
            specs.append(sp)
    for i, s in enumerate(specs):
        s["shard"] = i
    return specs


SHARD_TIMEOUT = {"quick": 900, "thorough": 3400}


def replay_specs(rp):
    sp = dict(rp["case"]["spec"])
    if sp.get("lane"):
        return [sp]
    k = sp.pop("only_k", None)
    if k is not None:
        sp["parts"] = 10 ** 9
        sp["part"] = k
        sp.pop("limit", None)
    return [sp]


def classify(w):
    kinds = set(w.get("all") or [])
    infl = (w.get("inflight") or {}).get("kind")
    if w.get("lane") and w.get("killed_at") == "mh_sequences" and kinds <= {"acknowledged-flags-lost"}:
        # killed between the truncation of .mh_sequences and its rewrite (or between two writes of it)
        return "C11-kill-inside-mh-sequences-rewrite-loses-flags"
    if infl == "rename_inbox" and kinds <= {"acknowledged-flags-lost"}:
        return "C11-kill-inside-rename-inbox-loses-flags-of-moved-messages"
    box = (w.get("detail") or "").split(":", 1)[0]
    if (infl in ("rename_inbox", "expunge", "move", "close", "delete") and kinds and kinds <= {"fetch-failed-after-restart", "mailbox-not-selectable", "append-after-recovery-inherits-flags"}
            and kinds & {"fetch-failed-after-restart", "mailbox-not-selectable"} and box and box in (w.get("mtime_not_newer") or [])):
        # killed inside a command that removes messages from this mailbox; when the server came back the folder's
        # mtime (one-second granularity) was not newer than the stored one, so it did not look at the folder and
        # still lists messages that are gone
        return "C11-same-second-mtime-hides-interrupted-removal"
    if infl == "rename_inbox" and w.get("deliver_while_down") and kinds == {"acknowledged-flags-lost", "revealed-uid-denotes-other-message"} and w.get("details") and all(
            "now lateDelivery" in d_[1] for d_ in w["details"] if d_[0] == "revealed-uid-denotes-other-message"):
        # both mechanisms in one recovery: killed inside RENAME INBOX (flags of moved messages not yet written to the new folder)
        # and a delivery made while the server was down took over a freed message number
        return ["C11-kill-inside-rename-inbox-loses-flags-of-moved-messages", "C11-key-reuse-while-down-after-interrupted-removal"]
    if (w.get("kind") == "revealed-uid-denotes-other-message" and w.get("all") and set(w["all"]) == {"revealed-uid-denotes-other-message"} and w.get("deliver_while_down")
            and "now lateDelivery" in (w.get("detail") or "") and (w.get("inflight") or {}).get("kind") in ("expunge", "move", "rename_inbox", "delete", "close")):
        return "C11-key-reuse-while-down-after-interrupted-removal"
    return None


def finish(tier, seed, cases, results, errors, wall):
    counts = common.merge_counts(results)
    per_hist = {}
    for r in results:
        if r and "hist" in r:
            per_hist.setdefault(f"{r['hist']}/{r['variant'] or 'fresh'}", {"points": r["n"], "exhaustive": True})
            if not r.get("exhaustive"):
                per_hist[f"{r['hist']}/{r['variant'] or 'fresh'}"]["exhaustive"] = False
    return common.finish(
        PROP, tier, seed, LEVEL, cases, wall=wall, errors=errors, classify=classify,
        exhaustive=all(v["exhaustive"] for v in per_hist.values()) if per_hist else None,
        rule=("one case = (history, kill point K): the child runs the history (messages with flags/dates/STORE/EXPUNGE first-middle-last; CREATE nested/COPY/MOVE/"
              "SUBSCRIBE/RENAME subtree/DELETE/re-CREATE; pack + external delivery + RENAME INBOX; bare start-up on a fresh directory, on pre-existing MH folders, "
              "and on databases left at each earlier schema version) and kills itself before mutation K, for every K from 1 to N+1 (quick: start-up histories "
              "exhaustively, the others sampled); then a fresh process (every third case after an MH delivery made while the server was down) restarts the server and "
              "checks: start-up succeeds, every listed mailbox SELECTs, every acknowledged message is present, acknowledged expunges stay expunged, acknowledged flags "
              "persist, no revealed (UIDVALIDITY, UID) names another message, UIDNEXT above every revealed UID; non-trivial = K lies strictly inside a command's "
              "mutations; distinct = (history, K)"),
        monitor_counts=dict(counts), extra={"histories": per_hist},
        floors={"kills": 100, "recoveries_checked": 100, "point:sql": 30, "oracle_checks": 200},
        assumptions=["a crash is a process kill (SIGKILL): completed write()s survive; power loss and torn writes below the syscall level are out of scope",
                     "kill points are Python-level mutations (audit events, SQL statements): a kill inside one SQLite commit is not produced by this tier"],
    )
