"""C12 -- an orderly restart changes nothing a client can see.
Monitor: Obs(server) before shutdown() == Obs(server) after restart, where
Obs = LIST "" *, LSUB "" *, per mailbox STATUS and UID FETCH 1:* (UID FLAGS)
minus \\Recent (and minus \\Marked/\\Unmarked)."""
from ..history import SPECIAL_USE
from .hist_base import HistProp, module_api

PROP = "C12"


async def restart_compare(w):
    before = await w.obs_snapshot()
    sel = [(s.selected, s.readonly) for s in w.sessions if s.selected]
    await w.restart()
    after = await w.obs_snapshot()
    w.stats["restart_compares"] += 1
    shapes = []
    for nm, bx in before["boxes"].items():
        uids = [r[1] for r in bx["rows"]]
        if uids and uids != list(range(uids[0], uids[0] + len(uids))):
            shapes.append("sparse-uids")
        if not uids:
            shapes.append("empty")
        if any(f for r in bx["rows"] for f in r[2] if not f.startswith("\\")):
            shapes.append("keywords")
    if any("\\Noselect" in a for a in before["list"].values()):
        shapes.append("noselect")
    if before["lsub"]:
        shapes.append("subscribed")
    for sh in set(shapes):
        w.stats["shape:" + sh] += 1
    w.last_shapes = set(shapes) | getattr(w, "last_shapes", set())
    extra = set(after["list"]) - set(before["list"])
    missing = set(before["list"]) - set(after["list"])
    if missing or not extra <= set(SPECIAL_USE):
        w.viol(["C12"], "mailbox-list-changed", f"missing {sorted(missing)} extra {sorted(extra)}")
    for nm in before["list"]:
        if before["list"][nm] != after["list"][nm]:
            w.viol(["C12"], "list-attributes-changed", f"{nm}: {before['list'][nm]} -> {after['list'][nm]}")
    if before["lsub"] != after["lsub"]:
        w.viol(["C12"], "subscriptions-changed", f"{before['lsub']} -> {after['lsub']}")
    for nm, bx in before["boxes"].items():
        ax = after["boxes"].get(nm)
        if ax is None:
            w.viol(["C12"], "mailbox-not-observable-after-restart", nm)
        if bx["status"] != ax["status"]:
            w.viol(["C12"], "status-changed", f"{nm}: {bx['status']} -> {ax['status']}")
        if bx["rows"] != ax["rows"]:
            w.viol(["C12"], "messages-changed", f"{nm}: {bx['rows']} -> {ax['rows']}")
        w.stats["restart_box_compares"] += 1
    for _ in range(2):
        s = w.session()
        names = [b.name for b in w.selectable()]
        await w.op_select(s, w.rnd.choice(names))


async def sk_restart_every_step(hp, w, rnd, ctx):
    a = w.session()
    await restart_compare(w)
    a = w.sessions[0]
    for i in range(6):
        await w.op_append(a, "INBOX", flags=[[], ["\\Seen"], ["kw1", "\\Flagged"], ["\\Deleted"], ["\\Answered"], ["\\Draft", "$Forwarded"]][i])
        await restart_compare(w)
        a = w.sessions[0]
    await w.op_select(a, "INBOX")
    await w.op_store(a, [2, 4], "add", ["\\Deleted"])
    await w.op_expunge(a)
    await restart_compare(w)
    a = w.sessions[0]
    await w.op_create(a, "p/c")
    await restart_compare(w)
    a = w.sessions[0]
    await w.op_append(a, "p")
    await w.op_delete(a, "p")  # placeholder
    await restart_compare(w)
    a = w.sessions[0]
    await w.op_subscribe(a, "p/c")
    await w.op_subscribe(a, "INBOX")
    await restart_compare(w)
    a = w.sessions[0]
    await w.op_rename(a, "p/c", "q/r/s")
    await restart_compare(w)
    a = w.sessions[0]
    await w.op_select(a, "INBOX")
    w.deliver("INBOX", 2)
    await w.rig.advance(6)
    await w.op_noop(a)
    await restart_compare(w)
    a = w.sessions[0]
    await w.op_rename(a, "INBOX", "saved")
    await restart_compare(w)


async def sk_batches_then_restart(hp, w, rnd, ctx):
    """Several messages arriving in one resync (batch delivery, multi-message
    COPY and MOVE) at various message-number offsets, each followed by an
    orderly restart: the UID of every message, its content and its flags
    survive."""
    # the oracle here is the before/after-restart comparison of what clients see, which
    # does not rest on the model: witnesses of other properties do not end the scenario
    w.foreign_violations = []
    w.continue_past_foreign = ["C12"]
    a = w.session()
    await w.op_create(a, "dst")
    for have in (6, 13, 30):
        while len(w.boxes["INBOX"].msgs) < have:
            await w.op_append(a, "INBOX", flags=rnd.choice([None, ["\\Seen"], ["\\Flagged"]]))
        n = rnd.choice([2, 3, 4])
        w.deliver("INBOX", n, unseen=[rnd.random() < 0.5 for _ in range(n)])
        await w.rig.advance(6)
        await w.op_select(a, "INBOX")
        await w.op_noop(a)
        await w.op_store(a, [a.nview()], "add", ["\\Flagged", "kw1"])
        await restart_compare(w)
        a = w.sessions[0]
        await w.op_select(a, "INBOX")
        while len(w.boxes["dst"].msgs) < have:
            await w.op_append(a, "dst")
        await w.op_copy(a, [1, 2, 3], "dst")
        await restart_compare(w)
        a = w.sessions[0]
    await w.observe()


async def sk_batches_into_sparse_folders_then_restart(hp, w, rnd, ctx):
    """Like the above, but the receiving folders are sparse: most of what they
    ever held is gone and the newest messages survive, so the new messages'
    numbers lie far above the message count (6 | 7 8, 27..30 | 31 32, ...)."""
    w.foreign_violations = []
    w.continue_past_foreign = ["C12"]
    a = w.session()
    for i in range(4):
        await w.op_append(a, "INBOX", flags=rnd.choice([None, ["\\Seen"], ["\\Flagged"]]))
    for name, total, keep, how in (("sp6", 6, 1, "copy"), ("sp30", 30, 4, "copy"), ("sp14", 14, 2, "deliver"), ("sp29", 29, 3, "move"), ("sp126", 126, 8, "copy")):
        if name == "sp126" and ctx["tier"] == "quick" and ctx["seed"] % 2:
            continue
        await w.op_create(a, name)
        for i in range(total):
            await w.op_append(a, name, flags=rnd.choice([None, ["\\Seen"]]))
        await w.op_select(a, name)
        await w.op_store(a, list(range(1, total - keep + 1)), "add", ["\\Deleted"], silent=True)
        await w.op_expunge(a)
        await w.observe(names=[name])
        if how == "deliver":
            w.deliver(name, 3, unseen=[True, False, True])
            await w.rig.advance(6)
            await w.op_noop(a)
        else:
            await w.op_select(a, "INBOX")
            await w.op_copy(a, [1, 2] if how == "copy" else [3, 4], name, move=(how == "move"))
            if how == "move":
                for i in range(2):
                    await w.op_append(a, "INBOX")
        w.stats["batches_into_sparse_folders"] += 1
        await restart_compare(w)
        a = w.sessions[0]
    await w.observe()


class C12(HistProp):
    prop = PROP
    names = ["INBOX", "other", "arch"]
    skeletons = [sk_restart_every_step, sk_batches_then_restart, sk_batches_into_sparse_folders_then_restart]
    weights = {"append": 10, "store_del": 8, "store": 6, "expunge": 8, "uid_expunge": 3, "copy": 4, "move": 4, "deliver": 5, "create": 3, "delete": 3, "rename": 2,
               "rename_inbox": 1, "subscribe": 3, "advance": 4, "noop": 3}
    opts = {"create_names": ["other", "arch", "arch/sub", "tmp", "tmp/x"], "rename_targets": ["moved", "arch/moved", "deep/er", "saved"], "tolerate": ["keep-subscribed"]}
    pack_limits = [100, 4, 8]
    observer_cadence = [2, 0]

    async def post_step(self, w, rnd):
        if rnd.random() < w.opts.get("restart_prob", 0.12):
            await restart_compare(w)

    def nontrivial(self, w):
        return w.stats["restart_compares"] >= 1 and bool(getattr(w, "last_shapes", set()) & {"sparse-uids", "noselect", "subscribed", "keywords"})


hp = C12()
plan, run_shard, replay_specs, finish = module_api(
    hp, quick=112, thorough=5000,
    rule=("one case = one history (messages, flags, CREATE/DELETE/RENAME/SUBSCRIBE, deliveries, packing with lowered threshold) with orderly restarts "
          "inserted at random steps (one skeleton restarts after every step); at each restart the full client-visible observation is taken before "
          "shutdown() and after the new start and compared; non-trivial = a restart happened at a state with a sparse UID list, keyword flags, a "
          "\\Noselect placeholder or subscriptions; distinct = hash of the operation sequence with numbers abstracted"),
    floors={"restart_compares": 60, "restart_box_compares": 300, "shape:sparse-uids": 10},
)
