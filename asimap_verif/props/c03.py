"""C03 -- a UID always names the same message.  Monitor: the write-once
ledger extended with INTERNALDATE and a digest of BODY.PEEK[] re-fetched after
every step; seq-form vs UID-form differential at command boundaries."""
from .hist_base import HistProp, module_api
from .c02 import sk_rename_then_refill

PROP = "C03"


async def sk_expunge_subsets_then_pack(hp, w, rnd, ctx):
    a = w.session()
    for i in range(9):
        await w.op_append(a, "INBOX", date=rnd.choice([None, "01-Jan-2020 10:00:00 +0000"]))
    await w.op_select(a, "INBOX")
    await w.observe(full=True)
    for victims in ([1], [4, 5], [7]):
        n = a.nview()
        await w.op_store(a, [v for v in victims if v <= n], "add", ["\\Deleted"])
        await w.op_expunge(a)
        await w.op_probe_pairs(a)
        await w.observe(full=True)
    await w.rig.advance(30)  # management task gets a chance to pack
    await w.op_noop(a)
    await w.op_probe_pairs(a)
    await w.observe(full=True)
    w.deliver("INBOX", 2)
    await w.rig.advance(6)
    await w.op_noop(a)
    await w.op_probe_pairs(a)
    await w.observe(full=True)
    await w.restart()
    await w.observe(full=True)


class C03(HistProp):
    prop = PROP
    names = ["INBOX", "other"]
    skeletons = [sk_expunge_subsets_then_pack, sk_rename_then_refill]
    weights = {"append": 10, "store_del": 10, "expunge": 9, "uid_expunge": 4, "move": 5, "copy": 4, "deliver": 5, "restart": 2, "rename": 1, "rename_inbox": 1,
               "advance": 5, "probe_pairs": 6, "uid_fetch": 4, "fetch": 4, "create": 1}
    opts = {"observe_full": True, "create_names": ["other", "tmp"], "rename_targets": ["moved", "saved"]}
    pack_limits = [4, 6, 100]
    initial = (3, 10)
    observer_cadence = [1, 2]

    def nontrivial(self, w):
        s = w.stats
        disturbed = s["expunged_msgs"] + s["close_expunged"] + s["packs"] + s["renames"] + s["restarts"] + s["rename_inbox"]
        return disturbed >= 1 and s["digest_compares"] >= 4 and s["ledger_reobs"] >= 2


hp = C03()
plan, run_shard, replay_specs, finish = module_api(
    hp, quick=112, thorough=4000,
    rule=("one case = one history biased to expunging arbitrary subsets, packing right after (threshold lowered), deliveries, RENAME and orderly restart; "
          "after every step every live message is re-fetched by UID (INTERNALDATE + BODY.PEEK[] digest) and compared with its first observation, and "
          "FETCH 1:* vs UID FETCH 1:* triples are compared; non-trivial = a probed message survived an expunge of another message or a pack/rename/"
          "restart and was re-fetched; distinct = hash of the operation sequence with numbers abstracted"),
    floors={"digest_compares": 300, "ledger_reobs": 200, "seq_uid_pair_probes": 20, "expunged_msgs": 20},
)
