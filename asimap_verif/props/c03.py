"""C03 -- a UID always names the same message.  Monitor: the write-once
ledger extended with INTERNALDATE and a digest of BODY.PEEK[] re-fetched after
every step; seq-form vs UID-form differential at command boundaries."""
import re

from .hist_base import HistProp, module_api
from .c02 import sk_rename_then_refill

PROP = "C03"


async def sk_expunge_subsets_then_pack(hp, w, rnd, ctx):
    a = w.session()
    for i in range(9):
        await w.op_append(a, "INBOX", date=rnd.choice([None, "01-Jan-2020 10:00:00 +0000"]))
    await w.op_select(a, "INBOX")
    await w.observe(full=True)
    for victims in ([1], [4, 5], [7]):
        n = a.nview()
        await w.op_store(a, [v for v in victims if v <= n], "add", ["\\Deleted"])
        await w.op_expunge(a)
        await w.op_probe_pairs(a)
        await w.observe(full=True)
    await w.rig.advance(30)  # management task gets a chance to pack
    await w.op_noop(a)
    await w.op_probe_pairs(a)
    await w.observe(full=True)
    w.deliver("INBOX", 2)
    await w.rig.advance(6)
    await w.op_noop(a)
    await w.op_probe_pairs(a)
    await w.observe(full=True)
    await w.restart()
    await w.observe(full=True)


async def sk_deleted_to_placeholder_and_created_again(hp, w, rnd, ctx):
    """A mailbox with an inferior is deleted (it stays as a placeholder, the same
    object inside the server) and created again; messages appended then get the
    message numbers of the ones that went, with other dates and other contents.
    What is fetched under each new UID -- date, size, content -- is what was
    appended, now and after a restart."""
    a = w.session()
    await w.op_create(a, "proj")
    await w.op_create(a, "proj/sub")
    for i in range(3):
        await w.op_append(a, "proj", date=["05-Jan-1999 08:00:00 +0000", "06-Jan-1999 08:00:00 +0000", None][i], body_lines=[f"old message {i} " + "x" * (30 * i)])
    await w.op_select(a, "proj")
    await w.op_fetch(a, [1, 2, 3], "UID INTERNALDATE RFC822.SIZE")
    await w.op_search_flag(a, "SEEN")
    await w.observe(full=True)
    await w.op_unselect(a)
    await w.op_delete(a, "proj")
    await w.observe(full=True)
    await w.op_create(a, "proj")
    for i in range(3):
        await w.op_append(a, "proj", date=["17-Mar-2021 09:30:00 +0000", None, "18-Mar-2021 09:30:00 +0000"][i], body_lines=[f"new message {i}", "y" * (17 * (3 - i))])
    await w.op_select(a, "proj")
    await w.op_fetch(a, [1, 2, 3], "UID INTERNALDATE RFC822.SIZE")
    await w.observe(full=True)
    await w.restart()
    await w.observe(full=True)


async def sk_rename_inbox_then_arrivals_in_the_new_mailbox(hp, w, rnd, ctx):
    """RENAME INBOX re-homes the messages under fresh UIDs in the new mailbox;
    what arrives there afterwards (APPEND, COPY, MOVE, delivery) gets UIDs above
    those, and every UID goes on naming its message -- also after a restart, and
    once more for a second RENAME INBOX into another name."""
    # (a UIDNEXT that is too low is another property's witness; what is asked here is what the UIDs name afterwards)
    w.foreign_violations = []
    w.continue_past_foreign = ["C03"]
    a, b = w.session(), w.session()
    for i in range(4):
        await w.op_append(a, "INBOX", date=rnd.choice([None, "02-Feb-2021 11:00:00 +0000"]))
    await w.op_select(a, "INBOX")
    await w.observe(full=True)
    for new in ("saved", "saved2"):
        await w.op_rename(a, "INBOX", new)
        await w.observe(full=True)
        await w.op_append(b, new)
        await w.op_append(b, "INBOX")
        await w.op_append(b, "INBOX")
        await w.op_select(b, "INBOX")
        await w.op_copy(b, [1], new)
        await w.op_copy(b, [2], new, move=True)
        w.deliver(new, 1)
        await w.rig.advance(6)
        await w.op_select(b, new)
        await w.op_noop(b)
        await w.op_probe_pairs(b)
        await w.observe(full=True)
        await w.restart()
        a, b = w.session(), w.session()
        await w.observe(full=True)
        await w.op_select(a, "INBOX")
        await w.op_append(b, "INBOX")


class C03(HistProp):
    prop = PROP
    names = ["INBOX", "other"]
    skeletons = [sk_expunge_subsets_then_pack, sk_rename_then_refill, sk_rename_inbox_then_arrivals_in_the_new_mailbox, sk_deleted_to_placeholder_and_created_again]
    weights = {"append": 10, "store_del": 10, "expunge": 9, "uid_expunge": 4, "move": 5, "copy": 4, "deliver": 5, "restart": 2, "rename": 1, "rename_inbox": 1,
               "advance": 5, "probe_pairs": 6, "uid_fetch": 4, "fetch": 4, "create": 1}
    opts = {"observe_full": True, "create_names": ["other", "tmp"], "rename_targets": ["moved", "saved"]}
    pack_limits = [4, 6, 100]
    initial = (3, 10)
    observer_cadence = [1, 2]

    def nontrivial(self, w):
        s = w.stats
        disturbed = s["expunged_msgs"] + s["close_expunged"] + s["packs"] + s["renames"] + s["restarts"] + s["rename_inbox"]
        return disturbed >= 1 and s["digest_compares"] >= 4 and s["ledger_reobs"] >= 2


# ---------------------------------------------------------------- scheduled tier
# UID commands that have to wait behind another session's EXPUNGE / MOVE /
# CLOSE, under the deterministic scheduler: every (UID, content) pair shown to
# any session must be the pair of the initial table (5 messages in INBOX with
# UIDs 1-5, 3 in `other` with UIDs 1-3; messages that arrive later get larger
# UIDs and are not judged).
SCHED_SETS = [
    [("INBOX", ["EXPUNGE"]), ("INBOX", ["UID FETCH 1:5 (FLAGS BODY.PEEK[HEADER.FIELDS (X-CID)])", "UID FETCH 5 (BODY.PEEK[])"])],
    [("INBOX", ["UID EXPUNGE 2"]), ("INBOX", ["UID FETCH 3:5 (FLAGS BODY.PEEK[HEADER.FIELDS (X-CID)])"]), ("INBOX", ["UID FETCH 5 (BODY.PEEK[])"])],
    [("INBOX", ["UID MOVE 1:2 other"]), ("INBOX", ["UID FETCH 3,5 (BODY.PEEK[HEADER.FIELDS (X-CID)])", "UID FETCH 1:* (BODY.PEEK[HEADER.FIELDS (X-CID)])"])],
    [("INBOX", ["UID STORE 1,3 +FLAGS (\\Deleted)", "CLOSE"]), ("INBOX", ["UID FETCH 4:5 (BODY.PEEK[HEADER.FIELDS (X-CID)])", "UID FETCH 5 (FLAGS BODY.PEEK[HEADER.FIELDS (X-CID)])"])],
    [("INBOX", ["EXPUNGE"]), ("INBOX", ["UID STORE 5 +FLAGS (kwx)", "UID FETCH 1:* (FLAGS BODY.PEEK[HEADER.FIELDS (X-CID)])"]), ("INBOX", ["UID FETCH 3 (BODY.PEEK[])"])],
    [("other", ["UID STORE 1 +FLAGS (\\Deleted)", "EXPUNGE"]), ("other", ["UID FETCH 2:3 (BODY.PEEK[HEADER.FIELDS (X-CID)])"]), ("INBOX", ["UID MOVE 5 other"])],
]


def run_sched_shard(spec):
    import shutil
    import tempfile
    from collections import Counter

    from .. import common
    from ..common import Case, HELD, INCONCLUSIVE, VIOLATED
    from ..gen import rng
    from ..rig import run_case
    from ..vloop import WallWatchdog, fifo_all_strategy, one_at_a_time_strategy, random_strategy
    from . import c10

    expected = {"INBOX": {i: f"q{i}" for i in range(1, 6)}, "other": {1: "q6", 2: "q7", 3: "q8"}}
    counts = Counter()
    cases = []
    scratch = spec["scratch"]
    for k in spec["scripts"]:
        rnd = rng(spec["seed"], "c03sched", k)
        if k < len(SCHED_SETS):
            cmdset = SCHED_SETS[k]
        else:
            # a remover and one or two UID readers on the same mailbox
            rem = rnd.choice([["EXPUNGE"], ["UID EXPUNGE 2"], ["UID EXPUNGE 2,4"], ["UID MOVE 1:2 other"], ["UID STORE 1 +FLAGS (\\Deleted)", "EXPUNGE"], ["UID MOVE 2,4 other"]])
            readers = []
            for _ in range(rnd.choice([1, 2])):
                lo = rnd.randint(1, 5)
                hi = rnd.randint(lo, 5)
                readers.append(("INBOX", [f"UID FETCH {lo}:{hi} ({rnd.choice(['FLAGS ', ''])}BODY.PEEK[HEADER.FIELDS (X-CID)])", f"UID FETCH {rnd.randint(1, 5)} (BODY.PEEK[])"][: rnd.choice([1, 2])]))
            cmdset = [("INBOX", rem)] + readers
            rnd.shuffle(cmdset)
        cmdset = [(w, list(c)) for w, c in cmdset]
        ctx = {"script": k, "dir": None}
        hashes = set()
        witness = None
        npairs = 0
        for i in range(spec.get("nsched", 6)):
            d = tempfile.mkdtemp(prefix="m", dir=scratch)
            ctx["dir"] = d
            holder = {}

            async def main(loop):
                holder["loop"] = loop
                return await c10.one_run(loop, ctx, cmdset, "concurrent")

            try:
                strategy = fifo_all_strategy if i == 0 else rnd.choice([random_strategy, random_strategy, one_at_a_time_strategy])
                sd = rnd.randrange(1 << 30)
                res, fs, info = run_case(main, seed=sd, scheduled=True, wall_budget=60, strategy=strategy)
            except WallWatchdog:
                counts["sched_wall_watchdog"] += 1
                continue
            except Exception:
                counts["sched_harness_error"] += 1
                continue
            finally:
                shutil.rmtree(d, ignore_errors=True)
            counts["schedules"] += 1
            hashes.add(common.h(holder["loop"].trace))
            bad = []
            for sname, where, uid, cid in info.get("uid_cid_pairs", []):
                want = expected.get(where, {}).get(uid)
                if want is not None:
                    npairs += 1
                    counts["sched_uid_content_pairs"] += 1
                    if cid != want:
                        bad.append(f"{sname} ({where}): UID {uid} shown with the content of {cid}, it names {want}")
            kind = "uid-shown-with-another-message"
            # what a UID FETCH returns carries only UIDs its set names
            for sname, text, status, got in info.get("uid_fetch_log", []):
                m = re.match(r"UID FETCH (\d+)(?::(\d+|\*))? ", text)
                if not m or status != "OK":
                    continue
                lo = int(m.group(1))
                hi = lo if m.group(2) is None else (10 ** 9 if m.group(2) == "*" else int(m.group(2)))
                counts["sched_uid_fetch_addressing_checks"] += 1
                wrong = [u for u in got if not (min(lo, hi) <= u <= max(lo, hi))]
                if wrong and m.group(2) != "*":
                    bad.append(f"{sname}: {text!r} returned data for UID(s) {wrong}")
                    kind = "uid-fetch-returned-unnamed-uid"
            if bad and witness is None:
                witness = {"kind": kind, "detail": str(bad[:4]), "commands": cmdset, "schedule": list(holder["loop"].trace)[:200], "seed": sd, "strategy": strategy.__name__, "data": {}}
        counts["distinct_schedules"] += len(hashes)
        sample = {"commands": cmdset, "distinct_schedules": len(hashes), "uid_content_pairs": npairs}
        if witness:
            cases.append(Case.make(f"sched{k}", VIOLATED, spec=dict(spec, scripts=[k]), nontrivial=True, key=common.h(cmdset), sample=sample, witness=witness))
        elif not hashes:
            cases.append(Case.make(f"sched{k}", INCONCLUSIVE, spec=dict(spec, scripts=[k]), reason="no schedule completed", sample=sample))
        else:
            cases.append(Case.make(f"sched{k}", HELD, spec=dict(spec, scripts=[k]), nontrivial=len(hashes) > 1 and npairs > 0, key=common.h(cmdset), sample=sample))
    return {"cases": cases, "counts": dict(counts)}


hp = C03()
plan, run_shard, replay_specs, finish = module_api(
    hp, quick=112, thorough=4000,
    rule=("one case = one history biased to expunging arbitrary subsets, packing right after (threshold lowered), deliveries, RENAME and orderly restart; "
          "after every step every live message is re-fetched by UID (INTERNALDATE + BODY.PEEK[] digest) and compared with its first observation, and "
          "FETCH 1:* vs UID FETCH 1:* triples are compared; non-trivial = a probed message survived an expunge of another message or a pack/rename/"
          "restart and was re-fetched; distinct = hash of the operation sequence with numbers abstracted"),
    floors={"digest_compares": 300, "ledger_reobs": 200, "seq_uid_pair_probes": 20, "expunged_msgs": 20},
)

_plan_hist, _run_hist = plan, run_shard


def plan(tier, seed, scale):
    specs = _plan_hist(tier, seed, scale)
    n = int((40 if tier == "quick" else 800) * scale)
    shards = 8 if tier == "quick" else 16
    for s in range(shards):
        specs.append({"prop": PROP, "tier": tier, "seed": seed, "shard": 100 + s, "mode": "sched", "scripts": list(range(n))[s::shards], "nsched": 6 if tier == "quick" else 25})
    return specs


def run_shard(spec):
    if spec.get("mode") == "sched":
        return run_sched_shard(spec)
    return _run_hist(spec)
