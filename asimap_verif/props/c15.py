"""C15 -- a message set denotes the same messages in every command.

Oracle: a reference denotation Den(text, uids, uid_mode) written from RFC
3501; every interpreter of a set (FETCH, STORE, COPY, MOVE, SEARCH seq key,
SEARCH UID key, UID EXPUNGE, the UID forms, and the internal functions
sequence_set_to_list / msg_set_to_msg_seq_set / the search matchers called
directly on a live Mailbox) must agree with it."""
import asyncio
import itertools
import re

from .. import common
from ..common import Case, HELD, INCONCLUSIVE, VIOLATED
from ..gen import CidFactory, rng
from ..history import expand_uidset
from ..rig import Rig
from . import base

PROP = "C15"
LEVEL = "exploration"
REJECT = "REJECT"


# ----------------------------------------------------------- reference
def parse_set(text):
    out = []
    for part in text.split(","):
        if ":" in part:
            a, b = part.split(":")
            out.append((a if a == "*" else int(a), b if b == "*" else int(b)))
        else:
            out.append(part if part == "*" else int(part))
    return out


def den(text, uids, uid_mode):
    """Set of UIDs denoted, or REJECT.  For UID mode a 0 is 'either': returns
    (result_if_ignored, may_reject=True)."""
    n = len(uids)
    last = uids[-1] if uids else None
    may_reject = False
    union = set()
    for e in parse_set(text):
        ends = e if isinstance(e, tuple) else (e, e)
        vals = []
        for x in ends:
            if x == "*":
                if n == 0:
                    if not uid_mode:
                        return REJECT, False
                    vals.append(None)
                else:
                    vals.append(last if uid_mode else n)
            else:
                if not uid_mode and (x < 1 or x > n):
                    return REJECT, False
                if uid_mode and x == 0:
                    may_reject = True
                vals.append(x)
        if None in vals:
            continue
        lo, hi = min(vals), max(vals)
        union.update(range(lo, hi + 1))
    if uid_mode:
        return {u for u in uids if u in union}, may_reject
    return {uids[i - 1] for i in union}, False


def elements(n):
    atoms = [str(i) for i in range(0, n + 2)] + ["*"]
    return atoms + [f"{a}:{b}" for a in atoms for b in atoms]


def all_sets(n, k):
    el = elements(n)
    for r in range(1, k + 1):
        for combo in itertools.product(el, repeat=r):
            yield ",".join(combo)


def nontrivial_set(text, n):
    return ":" in text or "*" in text or len(set(text.split(","))) < len(text.split(",")) or any(p.isdigit() and (int(p) == 0 or int(p) > n) for p in re.split("[,:]", text))


# --------------------------------------------------- function level
async def function_level(rig, mbox, uids, n, max_elems, cx, sample_every=1, rnd=None):
    """Call the real interpreters directly on the live Mailbox."""
    from asimap.exceptions import Bad, No
    from asimap.search import IMAPSearch, SearchContext
    from asimap.utils import sequence_set_to_list

    viols = []
    count = 0
    keys = list(mbox.msg_keys)
    assert list(mbox.uids) == list(uids), (mbox.uids, uids)
    seq_max = mbox.num_msgs
    uid_max = mbox.uids[-1] if mbox.uids else 1
    ctxs = [SearchContext(mbox, k, i + 1, seq_max, uid_max) for i, k in enumerate(keys)]
    for text in all_sets(n, max_elems):
        if sample_every > 1 and rnd.randrange(sample_every):
            continue
        parsed = parse_set(text)
        count += 1
        if nontrivial_set(text, n):
            cx["nontrivial_sets"] += 1
        for uid_mode in (False, True):
            want, may_reject = den(text, uids, uid_mode)
            # (1) Mailbox.msg_set_to_msg_seq_set
            try:
                got = mbox.msg_set_to_msg_seq_set(parsed, from_uids=uid_mode)
                got_uids = {uids[i - 1] for i in got if 1 <= i <= len(uids)}
                if any(not (1 <= i <= len(uids)) for i in got):
                    viols.append(("msg_set_to_msg_seq_set", text, uid_mode, f"positions outside mailbox: {sorted(got)}"))
            except (Bad, No):
                got_uids = REJECT
            except Exception as e:
                got_uids = f"EXC {type(e).__name__}"
            cx["fn_evals"] += 1
            if not (got_uids == want or (got_uids == REJECT and may_reject)):
                viols.append(("msg_set_to_msg_seq_set", text, uid_mode, f"got {got_uids if not isinstance(got_uids, set) else sorted(got_uids)} want {want if not isinstance(want, set) else sorted(want)}"))
            # (2) sequence_set_to_list as COPY uses it
            try:
                if uid_mode:
                    lst = sequence_set_to_list(parsed, uid_max if uids else 0, True)
                    got2 = {u for u in lst if u in mbox._uid_to_idx}
                else:
                    lst = sequence_set_to_list(parsed, len(keys))
                    got2 = {uids[i - 1] for i in lst}
            except (Bad, No):
                got2 = REJECT
            except Exception as e:
                got2 = f"EXC {type(e).__name__}"
            cx["fn_evals"] += 1
            if not (got2 == want or (got2 == REJECT and may_reject)):
                viols.append(("sequence_set_to_list(copy)", text, uid_mode, f"got {got2 if not isinstance(got2, set) else sorted(got2)} want {want if not isinstance(want, set) else sorted(want)}"))
            # (3) the search matchers
            srch = IMAPSearch("uid" if uid_mode else "message_set", msg_set=parsed)
            try:
                got3 = set()
                for c, u in zip(ctxs, uids):
                    if await srch.match(c):
                        got3.add(u)
            except Exception as e:
                got3 = f"EXC {type(e).__name__}"
            cx["fn_evals"] += 1
            if want == REJECT:
                # a SEARCH key may match nothing for the invalid part
                ok3 = isinstance(got3, set)
            else:
                ok3 = got3 == want
            if not ok3:
                viols.append(("search-matcher", text, uid_mode, f"got {got3 if not isinstance(got3, set) else sorted(got3)} want {want if not isinstance(want, set) else sorted(want)}"))
    return count, viols


# ------------------------------------------------------ end to end
class E2E:
    def __init__(self, rig, cx):
        self.rig = rig
        self.cx = cx
        self.viols = []
        self.copies = 0

    async def setup(self, n, rnd, name="base"):
        """Mailbox `name` with n messages and sparse UIDs."""
        s = self.rig.session("E")
        self.s = s
        cids = CidFactory("e")
        await s.cmd(f"CREATE {name}")
        await s.cmd("CREATE trash")
        total = n + rnd.randint(1, 3) if n else rnd.choice([0, 2])
        for i in range(total):
            cid, m = cids.make()
            await s.append(name, m)
        await s.cmd(f"SELECT {name}")
        if total > n:
            victims = sorted(rnd.sample(range(1, total + 1), total - n))
            await s.cmd(f"STORE {','.join(map(str, victims))} +FLAGS.SILENT (\\Deleted)")
            await s.cmd("EXPUNGE")
        r = await s.cmd("UID SEARCH ALL")
        uids = sorted(x for y in r.untagged("SEARCH") for x in y.data)
        assert len(uids) == n, (uids, n)
        self.uids = uids
        self.name = name
        return uids

    def bad(self, what, text, detail):
        self.viols.append((what, text, None, detail))

    async def snapshot(self):
        r = await self.s.cmd("UID FETCH 1:* (FLAGS)")
        return sorted((d["UID"], tuple(sorted(f for f in d.get("FLAGS", []) if f != "\\Recent"))) for n, d in r.fetches() if "UID" in d)

    async def one(self, text, heavy=False):
        s, uids, cx = self.s, self.uids, self.cx
        n = len(uids)
        w_seq, _ = den(text, uids, False)
        w_uid, may_rej = den(text, uids, True)

        def fmt(x):
            return sorted(x) if isinstance(x, set) else x

        # FETCH
        for uid_mode, want in ((False, w_seq), (True, w_uid)):
            r = await s.cmd(f"{'UID ' if uid_mode else ''}FETCH {text} (UID)")
            cx["e2e_cmds"] += 1
            got = {d["UID"] for _, d in r.fetches() if "UID" in d}
            if want == REJECT:
                if r.status != "BAD" and not (r.status == "NO" and n == 0):
                    self.bad("FETCH", text, f"non-UID set outside 1..{n} answered {r.status} with {sorted(got)} instead of BAD")
            elif r.status != "OK":
                if not (uid_mode and may_rej and r.status == "BAD"):
                    self.bad("UID FETCH" if uid_mode else "FETCH", text, f"{r.status} {r.tagged.text if r.tagged else ''}; want {fmt(want)}")
            elif got != want:
                self.bad("UID FETCH" if uid_mode else "FETCH", text, f"returned {sorted(got)} want {fmt(want)} (uids {uids})")
        # SEARCH keys
        for cmd, want, isuid in ((f"UID SEARCH {text}", w_seq, False), (f"UID SEARCH UID {text}", w_uid, True), (f"SEARCH UID {text}", w_uid, True)):
            r = await s.cmd(cmd)
            cx["e2e_cmds"] += 1
            got = {x for y in r.untagged("SEARCH") for x in y.data}
            if cmd.startswith("SEARCH "):
                got = {uids[i - 1] for i in got if 1 <= i <= n}
            if want == REJECT:
                if r.status == "OK" and not got <= set(uids):
                    self.bad(cmd.split(text)[0], text, f"returned {sorted(got)}")
            elif r.status != "OK":
                if not (isuid and may_rej and r.status == "BAD"):
                    self.bad(cmd.split(text)[0].strip(), text, f"{r.status} {r.tagged.text if r.tagged else ''}; want {fmt(want)}")
            elif got != want:
                self.bad(cmd.split(text)[0].strip(), text, f"returned {sorted(got)} want {fmt(want)} (uids {uids})")
        # STORE probe (self-restoring)
        for uid_mode, want in ((False, w_seq), (True, w_uid)):
            r = await s.cmd(f"{'UID ' if uid_mode else ''}STORE {text} +FLAGS.SILENT (probe)")
            cx["e2e_cmds"] += 1
            r2 = await s.cmd("UID SEARCH KEYWORD probe")
            got = {x for y in r2.untagged("SEARCH") for x in y.data}
            if got:
                await s.cmd("UID STORE 1:* -FLAGS.SILENT (probe)")
            if want == REJECT:
                if r.status != "BAD" and not (r.status == "NO" and n == 0):
                    self.bad("STORE", text, f"answered {r.status} instead of BAD")
                if got:
                    self.bad("STORE", text, f"rejected set was applied to {sorted(got)}")
                cx["rejected_not_applied_checks"] += 1
            elif r.status != "OK":
                if not (uid_mode and may_rej and r.status == "BAD"):
                    self.bad("UID STORE" if uid_mode else "STORE", text, f"{r.status}; want {fmt(want)}")
            elif got != want:
                self.bad("UID STORE" if uid_mode else "STORE", text, f"touched {sorted(got)} want {fmt(want)} (uids {uids})")
        # COPY
        if heavy:
            for uid_mode, want in ((False, w_seq), (True, w_uid)):
                r = await s.cmd(f"{'UID ' if uid_mode else ''}COPY {text} trash")
                cx["e2e_cmds"] += 1
                self.copies += 1
                m = re.match(r"COPYUID \d+ (\S+) (\S+)", ((r.tagged.code or "") + " ") if r.tagged else "")
                got = set(expand_uidset(m.group(1))) if m else set()
                if want == REJECT:
                    if r.status == "OK":
                        self.bad("COPY", text, f"answered OK [{r.tagged.code}] instead of BAD")
                elif r.status != "OK":
                    if not (uid_mode and may_rej and r.status == "BAD"):
                        self.bad("UID COPY" if uid_mode else "COPY", text, f"{r.status} {r.tagged.text if r.tagged else ''}; want {fmt(want)}")
                elif got != want:
                    self.bad("UID COPY" if uid_mode else "COPY", text, f"COPYUID sources {sorted(got)} want {fmt(want)} (uids {uids})")
            if self.copies > 60:
                await self.purge_trash()

    async def after_failed_persistence(self, rnd, rounds):
        """An EXPUNGE that removed messages from the middle of the mailbox and
        then could not record it: its last step -- the commit to the database --
        fails once ("database is locked").  Whatever the client is told about
        that EXPUNGE, the sets of the commands that follow denote the messages
        that are there (failpoint: Mailbox.commit_to_db wrapped from the harness,
        raising once when called by expunge())."""
        import sqlite3
        import sys as _sys

        from asimap.mbox import Mailbox

        from ..gen import CidFactory as _Cid

        cx = self.cx
        state = {"armed": False, "fired": 0}
        if not getattr(Mailbox, "_verif_commit_failpoint", None):
            orig = Mailbox.commit_to_db

            async def commit_to_db(mb, *a, **kw):
                st = Mailbox._verif_commit_failpoint
                if st.get("armed") and _sys._getframe(1).f_code.co_name == "expunge":
                    st["armed"] = False
                    st["fired"] += 1
                    raise sqlite3.OperationalError("database is locked (asimap-verif failpoint)")
                return await orig(mb, *a, **kw)

            Mailbox.commit_to_db = commit_to_db
        Mailbox._verif_commit_failpoint = state
        cids = _Cid("fp")
        keep_name, keep_uids = self.name, self.uids
        try:
            for rd in range(rounds):
                name = f"fp{rd}"
                s = self.s
                await s.cmd(f"CREATE {name}")
                for i in range(rnd.choice([5, 7, 12])):
                    await s.append(name, cids.make()[1])
                await s.cmd(f"SELECT {name}")
                r = await s.cmd("UID SEARCH ALL")
                before = sorted(x for y in r.untagged("SEARCH") for x in y.data)
                if len(before) < 4:
                    cx["failed_commit_round_skipped"] += 1
                    continue
                victims = sorted(rnd.sample(before[:-1], rnd.choice([1, 2])))
                await s.cmd(f"UID STORE {','.join(map(str, victims))} +FLAGS.SILENT (\\Deleted)")
                state["armed"] = True
                r = await s.cmd("EXPUNGE")
                state["armed"] = False
                cx["expunge_with_failed_commit:" + r.status] += 1
                await self.rig.settle()
                s.pump()
                if s.writer.closed or s.wire_error:
                    s = self.s = self.rig.session("D2")
                await self.rig.advance(rnd.choice([0, 3]))
                r = await s.cmd(f"SELECT {name}")
                if not r.ok:
                    self.bad("SELECT", name, f"after an EXPUNGE whose commit failed: {r.status} {r.tagged.text if r.tagged else ''}")
                    continue
                r = await s.cmd("FETCH 1:* (UID)")
                now = [d["UID"] for _, d in sorted(r.fetches(), key=lambda t: t[0]) if "UID" in d]
                if sorted(now) != now or not set(now) <= set(before):
                    self.bad("FETCH", "1:*", f"after an EXPUNGE whose commit failed: mailbox had {before}, lists {now}")
                    continue
                self.uids, self.name = now, name
                cx["failed_commit_rounds"] += 1
                lo = now[0] if now else 1
                for text in ["1:*", "*", f"{lo}", f"{victims[0]}", f"{victims[0]}:{victims[-1] + 1}", f"{now[len(now) // 2]}:*" if now else "1", "2:3", f"{now[-1]}" if now else "1"]:
                    await self.one(text, heavy=True)
                    cx["sets_after_failed_commit"] += 1
                    if self.s.writer.closed or self.s.wire_error:
                        self.bad("session", text, "after an EXPUNGE whose commit failed: connection lost: " + str(self.s.log[-3:])[:300])
                        self.s = self.rig.session("D3")
                        await self.s.cmd(f"SELECT {name}")
        finally:
            state["armed"] = False
            self.uids, self.name = keep_uids, keep_name
            if not (self.s.writer.closed or self.s.wire_error):
                await self.s.cmd(f"SELECT {keep_name}")
        cx["commit_failpoint_fired"] += state["fired"]

    async def arrivals(self, rnd, rounds):
        """The mailbox changes behind the session's back (the MH agent files mail,
        another session appends or expunges) and the *first* thing the session
        sends afterwards is a UID command whose set contains `*` or reaches past
        the highest UID it knows.  Whatever state the server answers for, it is
        one state: when the reply itself announces the new message count, the set
        denotes messages of the new state -- in FETCH as in SEARCH, STORE, COPY."""
        from ..gen import CidFactory as _Cid

        s, cx = self.s, self.cx
        other = self.rig.session("F")
        cids = _Cid("arr")
        for rd in range(rounds):
            name = f"arr{rd}"
            n0 = rnd.choice([0, 0, 1, 3])
            await s.cmd(f"CREATE {name}")
            for i in range(n0 + 1):
                await s.append(name, cids.make()[1])
            await s.cmd(f"SELECT {name}")
            # (sparse UIDs, and for n0 == 0 a mailbox that has been emptied)
            await s.cmd("STORE 1 +FLAGS.SILENT (\\Deleted)")
            await s.cmd("EXPUNGE")
            r = await s.cmd("UID SEARCH ALL")
            old = sorted(x for y in r.untagged("SEARCH") for x in y.data)
            r = await s.cmd(f"STATUS {name} (UIDNEXT)") if False else None
            how = rnd.choice(["deliver", "deliver", "append", "expunge-top"] if old else ["deliver", "deliver", "append"])
            if how == "deliver":
                for _ in range(rnd.choice([1, 2])):
                    self.rig.deliver_raw(name, cids.make()[1])
                await self.rig.advance(rnd.choice([0, 2, 12]))
            elif how == "append":
                await other.append(name, cids.make()[1])
            else:
                await other.cmd(f"SELECT {name}")
                await other.cmd(f"UID STORE {old[-1]} +FLAGS.SILENT (\\Deleted)")
                await other.cmd("EXPUNGE")
                await other.cmd("UNSELECT")
            top = (old[-1] if old else 1)
            text = rnd.choice(["*", f"{top + 1}:*", f"{top}:*", "1:*", f"*:{top + 1}", f"{top + 1}:{top + 9}"])
            kind = rnd.choice(["UID FETCH", "UID FETCH", "UID STORE", "UID SEARCH UID", "UID COPY"])
            nview_before = s.view_n
            if kind == "UID FETCH":
                r = await s.cmd(f"UID FETCH {text} (UID)")
                got = {d["UID"] for _, d in r.fetches() if "UID" in d}
            elif kind == "UID STORE":
                r = await s.cmd(f"UID STORE {text} +FLAGS.SILENT (probe)")
                got = None
            elif kind == "UID SEARCH UID":
                r = await s.cmd(f"UID SEARCH UID {text}")
                got = {x for y in r.untagged("SEARCH") for x in y.data}
            else:
                r = await s.cmd(f"UID COPY {text} trash")
                m = re.match(r"COPYUID \d+ (\S+) (\S+)", ((r.tagged.code or "") + " ") if r.tagged else "")
                got = set(expand_uidset(m.group(1))) if m else set()
            announced = [x.num for x in r.responses if x.kind == "num" and x.name == "EXISTS"]
            gone_told = sum(1 for x in r.responses if x.kind == "num" and x.name == "EXPUNGE")
            r2 = await s.cmd("UID SEARCH ALL")
            new = sorted(x for y in r2.untagged("SEARCH") for x in y.data)
            if kind == "UID STORE":
                r3 = await s.cmd("UID SEARCH KEYWORD probe")
                got = {x for y in r3.untagged("SEARCH") for x in y.data}
            cx["arrival_first_command_checks"] += 1
            cx["arrival:" + how + ":" + kind] += 1
            if r.status != "OK":
                self.bad(kind, text, f"first command after {how}: {r.status} {r.tagged.text if r.tagged else ''}")
                continue
            w_new, _ = den(text, new, True)
            w_old, _ = den(text, old, True)
            noticed = bool(announced and announced[-1] == len(new) and len(new) != len(old)) or (how == "expunge-top" and gone_told)
            if noticed:
                cx["arrival_noticed_in_the_same_command"] += 1
            ok = (got == w_new) if noticed else (got in (w_new, w_old & set(new) if isinstance(w_old, set) else w_old, w_old))
            if not ok:
                self.bad(kind, text, f"first command after {how} (mailbox had UIDs {old}, has {new}; reply announced EXISTS {announced}): acted on {sorted(got) if isinstance(got, set) else got}, "
                                     f"the set denotes {sorted(w_new) if isinstance(w_new, set) else w_new} there")
            await s.cmd("UID STORE 1:* -FLAGS.SILENT (probe)")
            await s.cmd(f"SELECT {self.name}")

    async def purge_trash(self):
        s = self.s
        await s.cmd("SELECT trash")
        await s.cmd("STORE 1:* +FLAGS.SILENT (\\Deleted)")
        await s.cmd("EXPUNGE")
        await s.cmd(f"SELECT {self.name}")
        self.copies = 0

    async def destructive(self, text, rnd, idx, kind=None):
        """MOVE / UID MOVE / UID EXPUNGE on a fresh sparse copy."""
        s = self.s
        name = f"w{idx}"
        n = len(self.uids)
        await s.cmd(f"CREATE {name}")
        cids = CidFactory(f"w{idx}-")
        total = n + 2
        for i in range(total):
            cid, m = cids.make()
            await s.append(name, m, flags=["\\Deleted"] if rnd.random() < 0.6 else None)
        await s.cmd(f"SELECT {name}")
        if total > n and n >= 0:
            await s.cmd("UID STORE 1:* -FLAGS.SILENT (victim)")
            victims = sorted(rnd.sample(range(1, total + 1), total - n))
            # remove the victims regardless of \Deleted: mark only them
            await s.cmd("STORE 1:* -FLAGS.SILENT (\\Deleted)")
            await s.cmd(f"STORE {','.join(map(str, victims))} +FLAGS.SILENT (\\Deleted)")
            await s.cmd("EXPUNGE")
        r = await s.cmd("UID SEARCH ALL")
        uids = sorted(x for y in r.untagged("SEARCH") for x in y.data)
        kind = kind or rnd.choice(["MOVE", "UID MOVE", "UID EXPUNGE"])
        self.cx["destructive:" + kind] += 1
        if kind == "UID EXPUNGE":
            dele = sorted(rnd.sample(uids, rnd.randint(0, len(uids)))) if uids else []
            if dele:
                await s.cmd(f"UID STORE {','.join(map(str, dele))} +FLAGS.SILENT (\\Deleted)")
            want, may_rej = den(text, uids, True)
            r = await s.cmd(f"UID EXPUNGE {text}")
            r2 = await s.cmd("UID SEARCH ALL")
            left = {x for y in r2.untagged("SEARCH") for x in y.data}
            gone = set(uids) - left
            if r.status == "OK":
                if gone != (want & set(dele)):
                    self.bad("UID EXPUNGE", text, f"removed {sorted(gone)} want {sorted(want & set(dele))} (uids {uids}, \\Deleted {dele})")
            elif gone:
                self.bad("UID EXPUNGE", text, f"{r.status} but removed {sorted(gone)}")
        else:
            um = kind.startswith("UID")
            want, may_rej = den(text, uids, um)
            # some of the messages are flagged \Deleted (by whoever): a MOVE takes what its set denotes, nothing else
            dele = sorted(rnd.sample(uids, rnd.randint(1, len(uids)))) if uids and rnd.random() < 0.7 else []
            if dele:
                await s.cmd(f"UID STORE {','.join(map(str, dele))} +FLAGS.SILENT (\\Deleted)")
                self.cx["destructive_move_beside_deleted_messages"] += 1
            r = await s.cmd(f"{kind} {text} trash")
            r2 = await s.cmd("UID SEARCH ALL")
            left = {x for y in r2.untagged("SEARCH") for x in y.data}
            gone = set(uids) - left
            if want == REJECT:
                if r.status == "OK" or gone:
                    self.bad(kind, text, f"rejected set: {r.status}, removed {sorted(gone)}")
            elif r.status == "OK":
                if gone != want:
                    self.bad(kind, text, f"removed {sorted(gone)} want {sorted(want)} (uids {uids})")
            elif gone:
                self.bad(kind, text, f"{r.status} but removed {sorted(gone)}")
        await s.cmd(f"SELECT {self.name}")
        await s.cmd(f"DELETE {name}")


async def script(loop, ctx):
    from collections import Counter

    k = ctx["script"]
    tier = ctx["tier"]
    rnd = rng(ctx["seed"], "c15", k)
    cx = ctx["counts"]
    plan = ctx["plan"]  # dict: n, mode, max_elems, part, parts
    n = plan["n"]
    rig = await Rig(ctx["dir"] + "/mail", loop).start()
    viols = []
    evaluated = 0
    samples = []
    try:
        e = E2E(rig, cx)
        uids = await e.setup(n, rnd)
        if plan["mode"] == "fn":
            mbox = rig.server.active_mailboxes["base"]
            cnt, v = await function_level(rig, mbox, uids, n, plan["max_elems"], cx, sample_every=plan.get("sample_every", 1), rnd=rnd)
            evaluated += cnt
            viols += v
            cx["fn_sets"] += cnt
            samples = [f"N={n} uids={uids} every set of <= {plan['max_elems']} elements over 0..{n + 1},* at function level ({cnt} sets)"]
        else:
            sets = list(all_sets(n, plan["max_elems"]))
            mine = sets[plan["part"] :: plan["parts"]]
            if plan.get("limit") and len(mine) > plan["limit"]:
                mine = rnd.sample(mine, plan["limit"])
            for i, text in enumerate(mine):
                await e.one(text, heavy=(i % plan.get("heavy_every", 1) == 0))
                evaluated += 1
                if nontrivial_set(text, n):
                    cx["nontrivial_sets"] += 1
                if e.s.writer.closed or e.s.wire_error:
                    e.bad("session", text, "connection lost: " + str(e.s.log[-3:]))
                    break
            for j in range(plan.get("destructive", 0)):
                text = rnd.choice(sets)
                await e.destructive(text, rnd, j)
                evaluated += 1
            if plan.get("destructive"):
                # sets that denote nothing (only UIDs nobody has) while other messages are flagged \Deleted
                for j, (text, kind) in enumerate([("9999", "UID MOVE"), ("9990:9999", "UID MOVE"), ("9999", "UID EXPUNGE"), ("9998,9999", "UID MOVE")]):
                    await e.destructive(text, rnd, 900 + j, kind=kind)
                    cx["destructive_sets_denoting_nothing"] += 1
                    evaluated += 1
            if plan.get("arrivals"):
                await e.arrivals(rnd, plan["arrivals"])
                evaluated += plan["arrivals"]
                await e.after_failed_persistence(rnd, 2 if tier == "quick" else 6)
                evaluated += 2 if tier == "quick" else 6
            cx["e2e_sets"] += evaluated
            viols += e.viols
            samples = [f"N={n} uids={uids} end-to-end sets: {mine[:6]} ..."]
    finally:
        try:
            await rig.stop()
        except Exception:
            cx["stop_failed"] += 1
    cx["watchdog_hits"] += len(rig.watchdog_hits)
    cases = []
    bykind = {}
    for what, text, um, detail in viols:
        bykind.setdefault((what, um), []).append((text, detail))
    for (what, um), lst in bykind.items():
        text, detail = lst[0]
        cases.append(Case.make(f"s{k}:{what}:{um}", VIOLATED, spec=ctx["spec"], nontrivial=True, key=common.h([k, what, um]),
                               sample=samples[0] if samples else None,
                               witness={"kind": "interpreter-disagrees-with-denotation", "detail": f"{what}{' (UID)' if um else ''} set {text!r}: {detail}; {len(lst)} sets affected, e.g. {[t for t, _ in lst[:6]]}",
                                        "data": {"interpreter": what, "uid_mode": um, "sets": [t for t, _ in lst[:30]], "n": n}}))
    if not cases:
        cases.append(Case.make(f"s{k}", HELD, spec=ctx["spec"], nontrivial=True, key=common.h([k, plan]), sample=samples[0] if samples else None))
    cases[0]["evaluated"] = evaluated
    return cases


def plan(tier, seed, scale):
    specs = []
    plans = []
    if tier == "quick":
        for n in (0, 3):
            plans.append({"n": n, "mode": "fn", "max_elems": 2})
        for n in (2, 5):
            plans.append({"n": n, "mode": "fn", "max_elems": 1})
        for n in (0, 3):
            for part in range(6):
                plans.append({"n": n, "mode": "e2e", "max_elems": 2, "part": part, "parts": 6, "limit": int(110 * scale), "heavy_every": 3, "destructive": 6})
        plans.append({"n": 5, "mode": "e2e", "max_elems": 1, "part": 0, "parts": 1, "limit": int(60 * scale), "heavy_every": 2, "destructive": 4})
        for part in range(4):
            plans.append({"n": 2, "mode": "e2e", "max_elems": 1, "part": part, "parts": 4, "limit": 4, "heavy_every": 2, "destructive": 0, "arrivals": int(24 * scale)})
    else:
        for n in range(0, 6):
            plans.append({"n": n, "mode": "fn", "max_elems": 3})
        for n in range(0, 6):
            parts = 8
            for part in range(parts):
                plans.append({"n": n, "mode": "e2e", "max_elems": 2, "part": part, "parts": parts, "heavy_every": 4, "destructive": 25, "arrivals": 40})
    for i, p in enumerate(plans):
        specs.append({"prop": PROP, "tier": tier, "seed": seed, "shard": i, "scripts": [i], "plan": p})
    return specs


def run_shard(spec):
    return base.run_scripts(spec, script, wall_budget=1500.0, user_kwargs={"plan": spec["plan"]})


SHARD_TIMEOUT = {"quick": 600, "thorough": 3000}


def replay_specs(rp):
    return base.replay_specs_from(rp)


def classify(w):
    return None


def finish(tier, seed, cases, results, errors, wall):
    counts = common.merge_counts(results)
    # evidence: every evaluated set is a case; distinct non-trivial is measured
    total = sum(c.get("evaluated", 0) for c in cases)
    exhaustive = tier == "thorough"
    rc = common.finish(
        PROP, tier, seed, LEVEL, cases, wall=wall, errors=errors, classify=classify, exhaustive=exhaustive if tier == "thorough" else None,
        rule=("one case = one shard: either every sequence set of <= k elements over {0..N+1,*} and all ranges of them evaluated by the real interpreters "
              "called on a live Mailbox (function level; thorough: k=3 for every N<=5, exhaustive), or a slice of the sets of <= 2 elements sent "
              "end-to-end in FETCH, UID FETCH, SEARCH seq/UID keys, STORE (probe flag), COPY, and sampled MOVE / UID MOVE / UID EXPUNGE on fresh sparse "
              "mailboxes; a set is non-trivial if it has a range, '*', a duplicate or an out-of-range element (all but N of them are); distinct = shard plan"),
        monitor_counts=dict(counts, sets_evaluated=total),
        extra={"evaluations": max(total, 1), "distinct_nontrivial": int(counts.get("nontrivial_sets", 0)), "shards": len(cases)},
        floors={"fn_evals": 5000, "e2e_cmds": 2000, "rejected_not_applied_checks": 50},
        assumptions=["function-level evaluation calls Mailbox.msg_set_to_msg_seq_set, utils.sequence_set_to_list (as COPY uses it) and IMAPSearch.match directly on the live objects",
                     "UID sets containing 0: both rejection and ignoring are accepted (DESIGN appendix B)"],
    )
    return rc
