"""Common script for the history-based properties (C01-C05, C12, C13)."""
import re

from .. import common
from ..common import Case, HELD, INCONCLUSIVE, VIOLATED
from ..gen import rng
from ..histgen import DEFAULT_WEIGHTS, final_sync, step
from ..history import Stop, World
from ..rig import Rig
from . import base


PACKS = {"n": 0}


def set_pack_limit(v, server=None):
    """`server`: also for the mailboxes that are active already (the limit is copied when a Mailbox object is made)."""
    from asimap.mbox import Mailbox

    Mailbox.FOLDER_SIZE_PACK_LIMIT = v
    if server is not None:
        for mb in list(server.active_mailboxes.values()):
            mb.folder_size_pack_limit = v
    if not getattr(Mailbox, "_verif_pack_counted", False):
        orig = Mailbox._pack_if_necessary

        async def counted(self):
            r = await orig(self)
            if r:
                PACKS["n"] += 1
            return r

        Mailbox._pack_if_necessary = counted
        Mailbox._verif_pack_counted = True


class HistProp:
    """Configuration of one history-based property check."""

    prop = None
    weights = {}
    opts = {}
    skeletons = []  # async fn(w, rnd, ctx)
    steps_quick = (12, 30)
    steps_thorough = (15, 45)
    names = ["INBOX", "other"]
    nsessions = (2, 3)
    initial = (0, 8)
    pack_limits = [100]
    observer_cadence = [1, 3, 0]  # every k steps; 0 = only at the end

    def nontrivial(self, w):
        return True

    async def post_step(self, w, rnd):
        return None

    def sample(self, w):
        return {"steps": w.steps[:40], "stats": {k: v for k, v in w.stats.items() if not k.startswith("flush_state")}}

    async def setup(self, w, rnd, ctx):
        s0 = w.session()
        for nm in self.names:
            if nm not in w.boxes:
                await w.op_create(s0, nm)
        k = rnd.randint(*self.initial)
        for i in range(k):
            fl = rnd.choice([None, ["\\Seen"], ["\\Deleted"], ["\\Seen", "\\Deleted"], ["\\Flagged"]])
            await w.op_append(s0, rnd.choice(self.names[:1] * 3 + self.names), flags=fl)
        await w.op_select(s0, self.names[0])
        for _ in range(rnd.randint(*self.nsessions) - 1):
            s = w.session()
            await w.op_select(s, rnd.choice(self.names[:1] * 2 + self.names), examine=rnd.random() < self.opts.get("examine_prob", 0.15))
        await w.observe()

    async def script(self, loop, ctx):
        k = ctx["script"]
        rnd = rng(ctx["seed"], self.prop, k)
        counts = ctx["counts"]
        pack = self.pack_limits[k % len(self.pack_limits)]
        set_pack_limit(pack)
        ctx["_packs0"] = PACKS["n"]
        rig = await Rig(ctx["dir"] + "/mail", loop).start()
        opts = dict(self.opts, cid_prefix=f"h{k}-")
        w = World(rig, rnd, opts)
        w.pack_limit = pack
        verdict = HELD
        reason = None
        try:
            try:
                await w.init()
                if k < len(self.skeletons):
                    w.note(f"== skeleton {self.skeletons[k].__name__} ==")
                    await self.skeletons[k](self, w, rnd, ctx)
                else:
                    await self.setup(w, rnd, ctx)
                    lo, hi = self.steps_quick if ctx["tier"] == "quick" else self.steps_thorough
                    nsteps = rnd.randint(lo, hi)
                    cadence = rnd.choice(self.observer_cadence)
                    weights = dict(DEFAULT_WEIGHTS)
                    weights.update(self.weights)
                    for i in range(nsteps):
                        op = await step(w, rnd, weights, self.names, dict(opts, nsessions=2))
                        counts["op:" + op] += 1
                        await self.post_step(w, rnd)
                        if cadence and (i + 1) % cadence == 0:
                            await w.observe(full=opts.get("observe_full", False))
                await final_sync(w)
            except Stop:
                pass
        finally:
            try:
                await rig.stop()
            except Exception as e:
                counts["stop_failed"] += 1
            set_pack_limit(100)
        for kk, v in w.stats.items():
            counts[kk] += v
        counts["packs"] += PACKS["n"] - ctx.get("_packs0", 0)
        w.stats["packs"] = PACKS["n"] - ctx.get("_packs0", 0)
        for kk, v in w.known_hits.items():
            counts["known:" + kk] += v
        for kk, v in rig.counts.items():
            if kk.startswith(("startup_", "leniency:")):
                counts[kk] += v
        counts["wire_errors"] += len(rig.wire_errors)
        counts["watchdog_hits"] += len(rig.watchdog_hits)
        import os as _os

        own = [v for v in w.violations if self.prop in v["props"] or _os.environ.get("ASIMAP_VERIF_ALLPROPS")]
        other = [v for v in w.violations if self.prop not in v["props"]]
        for v in other:
            counts["stopped_by:" + "/".join(v["props"]) + ":" + v["kind"]] += 1
        cid = f"h{k}"
        key = common.h([re.sub(r"\d+", "#", s) for s in w.steps])
        nontriv = self.nontrivial(w)
        sample = self.sample(w)
        if own:
            v = own[0]
            tail = []
            for s in rig.sessions[-4:]:
                tail.append({s.name: s.log[-12:]})
            return [Case.make(cid, VIOLATED, spec=ctx["spec"], nontrivial=nontriv, key=key, sample=sample,
                              witness={"kind": v["kind"], "detail": v["detail"], "props": v["props"], "data": v.get("data") or {}, "history": w.steps[-40:], "sessions": tail,
                                       "log": [x[2][:200] for x in rig.log_records[-5:]], "pack_limit": pack})]
        c = Case.make(cid, HELD, spec=ctx["spec"], nontrivial=nontriv, key=key, sample=sample)
        c["known"] = [m for m in w.known_hits if m.startswith(self.prop + "-")]
        return [c]


def module_api(hp, quick, thorough, rule, floors, assumptions=None, classify=None, level="exploration"):
    """Build plan/run_shard/replay_specs/finish for a HistProp instance."""

    def plan(tier, seed, scale):
        return base.plan_scripts(hp.prop, tier, seed, scale, quick=quick, thorough=thorough)

    def run_shard(spec):
        return base.run_scripts(spec, hp.script)

    def replay_specs(rp):
        return base.replay_specs_from(rp)

    def finish(tier, seed, cases, results, errors, wall):
        counts = common.merge_counts(results)
        mc = {k: v for k, v in counts.items() if not k.startswith("flush_state")}
        extra = {"flush_states": {k.split(":")[1]: v for k, v in counts.items() if k.startswith("flush_state")}}
        return common.finish(hp.prop, tier, seed, level, cases, wall=wall, errors=errors, classify=classify, rule=rule,
                             monitor_counts=mc, floors=floors, extra=extra,
                             assumptions=(assumptions or []) + ["virtual clock (VLoop)", "in-memory stream stands in for the loopback TCP hop",
                                                                "external MH agent = stdlib mailbox.MH + os.utime bump of the folder mtime",
                                                                "Mailbox.FOLDER_SIZE_PACK_LIMIT lowered in some shards so that packing is reachable"])

    return plan, run_shard, replay_specs, finish
