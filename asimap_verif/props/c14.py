"""C14 -- SEARCH returns exactly the messages that satisfy the criteria.

Oracle: (1) an independent evaluator applies the generated program to
per-message facts as the server itself reports them (FLAGS, RFC822.SIZE,
INTERNALDATE from FETCH) and to the generator's ground truth for
Date/header/body/text keys (unique planted tokens); (2) algebraic laws between
pairs of searches over the same state."""
import datetime as dt
import re

from .. import common
from ..common import Case, HELD, INCONCLUSIVE, VIOLATED
from ..gen import rng
from ..rig import Rig
from . import base
from .c15 import den, REJECT

PROP = "C14"
LEVEL = "exploration"
MONTHS = ["Jan", "Feb", "Mar", "Apr", "May", "Jun", "Jul", "Aug", "Sep", "Oct", "Nov", "Dec"]
KEYWORDS = ["kwa", "kwb", "$Label1"]
FLAGKEYS = {"ANSWERED": "\\Answered", "DELETED": "\\Deleted", "DRAFT": "\\Draft", "FLAGGED": "\\Flagged", "SEEN": "\\Seen", "RECENT": "\\Recent"}


def fmt_date(d, rnd):
    s = f"{d.day}-{MONTHS[d.month - 1]}-{d.year}"
    r = rnd.random()
    if r < 0.2:
        s = f"{d.day:02d}-{MONTHS[d.month - 1]}-{d.year}"
    if rnd.random() < 0.3:
        s = '"' + s + '"'
    return s


def make_mail(i, rnd):
    """Returns (raw, truth) with planted unique tokens."""
    t = {}
    sent = dt.date(2021, 1, 1) + dt.timedelta(days=rnd.randint(0, 40) * 9)
    tz = rnd.choice(["+0000", "-0500", "+0930", "-1100", "+1300"])
    hh = rnd.choice([0, 1, 12, 23])
    t["sent"] = sent
    hdrs = []
    t["headers"] = {}

    def add(name, value):
        hdrs.append(f"{name}: {value}")
        t["headers"].setdefault(name.lower(), []).append(value.lower())

    add("From", f"Fromtok{i} Person <fromaddr{i}@from.example>")
    if rnd.random() < 0.9:
        add("To", f"totok{i}@to.example, shared@to.example")
    if rnd.random() < 0.4:
        add("Cc", f"cctok{i}@cc.example")
    if rnd.random() < 0.3:
        add("Bcc", f"bcctok{i}@bcc.example")
    add("Subject", f"subjtok{i} sharedsubject {'oddsubj' if i % 2 else 'evensubj'}")
    if i % 5 != 4:
        hdrs.append(f"Date: {sent.day:02d} {MONTHS[sent.month - 1]} {sent.year} {hh:02d}:30:00 {tz}")
        t["has_date"] = True
    else:
        t["has_date"] = False
        if i % 2:
            hdrs.append(rnd.choice(["Date: not a date at all", "Date: 99 Foo 2021 25:61:00 +9999", "Date: "]))
    if i % 4 == 2:
        # a folded header whose encoded words split one multi-byte character between them (pure ASCII on the wire; the
        # server's first way of rendering such a message fails and it falls back to a second one)
        hdrs.append("X-Weather: =?utf-8?Q?=E2=98=80=EF=B8=8F=20Napa=20Weekend=20Forecast:=2080=20degrees=20=E2=98=80=EF?=\r\n"
                    "\t=?utf-8?Q?=B8=8F=20=E2=80=93=20Join=20us=20for=20Carnival=20of=20Flavor!?=")
    add("X-Tag", f"tagtok{i}")
    if i % 3 == 0:
        add("X-Tag", f"secondtag{i}")
    hdrs.append(f"Message-ID: <mid{i}@verif.example>")
    body_tokens = [f"bodytok{i}", "sharedbody", "triplebody" if i % 3 == 0 else "nontriple"]
    pad = "z" * (40 * (i % 7))
    body = " ".join(body_tokens) + "\r\n" + pad + "\r\nlast line\r\n"
    if i % 5 == 3:
        # a compound message: words that occur only in a sub-part's MIME header, in the header block of an embedded
        # message, in the preamble -- all of it is the body of this message
        bnd = f"=_bnd{i}"
        hdrs.append("MIME-Version: 1.0")
        hdrs.append(f'Content-Type: multipart/mixed; boundary="{bnd}"')
        body = (f"preambletok{i} sharedpreamble\r\n--{bnd}\r\nContent-Type: text/plain; charset=us-ascii\r\n\r\n" + body
                + f"--{bnd}\r\nContent-Type: application/octet-stream; name=\"attachtok{i}.bin\"\r\nContent-Disposition: attachment; filename=\"attachtok{i}.bin\"\r\n"
                + f"Content-Description: desctok{i} shareddesc\r\n\r\npayloadtok{i}\r\n"
                + f"--{bnd}\r\nContent-Type: message/rfc822\r\n\r\nFrom: embfromtok{i}@emb.example\r\nSubject: embsubjtok{i} sharedembsubj\r\n"
                + f"Message-ID: <embmid{i}@emb.example>\r\n\r\nembbodytok{i} inner text\r\n--{bnd}--\r\nepiloguetok{i}\r\n")
    t["body"] = body.lower()
    raw = ("\r\n".join(hdrs) + "\r\n\r\n" + body).encode()
    t["text"] = raw.decode().lower()
    return raw, t


# ------------------------------------------------------------ programs
def gen_key(rnd, n, uids, depth, nmsgs_tokens):
    r = rnd.random()
    if depth > 0 and r < 0.12:
        return ("not", gen_key(rnd, n, uids, depth - 1, nmsgs_tokens))
    if depth > 0 and r < 0.24:
        return ("or", gen_key(rnd, n, uids, depth - 1, nmsgs_tokens), gen_key(rnd, n, uids, depth - 1, nmsgs_tokens))
    if depth > 0 and r < 0.34:
        return ("and",) + tuple(gen_key(rnd, n, uids, depth - 1, nmsgs_tokens) for _ in range(rnd.randint(1, 3)))
    kind = rnd.choice(["flag", "flag", "unflag", "keyword", "unkeyword", "new", "old", "all", "hdr", "hdr", "header", "body", "text", "idate", "sent", "size", "set", "uid"])
    i = rnd.randrange(max(1, nmsgs_tokens))
    if kind == "flag":
        return ("flag", rnd.choice(list(FLAGKEYS)))
    if kind == "unflag":
        return ("unflag", rnd.choice(["ANSWERED", "DELETED", "DRAFT", "FLAGGED", "SEEN"]))
    if kind == "keyword":
        return ("keyword", rnd.choice(KEYWORDS + ["nosuchkw"]))
    if kind == "unkeyword":
        return ("unkeyword", rnd.choice(KEYWORDS))
    if kind in ("new", "old", "all"):
        return (kind,)
    if kind == "hdr":
        f = rnd.choice(["FROM", "TO", "CC", "BCC", "SUBJECT"])
        tok = {"FROM": rnd.choice([f"fromtok{i}", f"fromaddr{i}@", "from.example", "FROMTOK" + str(i)]), "TO": rnd.choice([f"totok{i}", "shared@to"]), "CC": f"cctok{i}",
               "BCC": f"bcctok{i}", "SUBJECT": rnd.choice([f"subjtok{i}", "sharedsubject", "oddsubj", "EvenSubj", "nosuchword"])}[f]
        return ("hdr", f, tok)
    if kind == "header":
        return ("header", rnd.choice(["X-Tag", "x-tag", "Subject", "X-Missing"]), rnd.choice([f"tagtok{i}", f"secondtag{i - i % 3}", "", "subjtok"]))
    if kind == "body":
        return ("body", rnd.choice([f"bodytok{i}", "sharedbody", "triplebody", "TRIPLEBODY", f"subjtok{i}", "last line", f"attachtok{i}", f"embsubjtok{i}", "sharedembsubj", "shareddesc",
                                    f"embfromtok{i}", "sharedpreamble", f"payloadtok{i}", f"embbodytok{i}", f"epiloguetok{i}", "message/rfc822", "octet-stream"]))
    if kind == "text":
        return ("text", rnd.choice([f"bodytok{i}", f"subjtok{i}", f"tagtok{i}", "sharedbody", "nosuchword", f"embsubjtok{i}", "shareddesc", f"attachtok{i}"]))
    if kind == "idate":
        return (rnd.choice(["BEFORE", "ON", "SINCE"]), "idate")
    if kind == "sent":
        return (rnd.choice(["SENTBEFORE", "SENTON", "SENTSINCE"]), "sent")
    if kind == "size":
        return (rnd.choice(["LARGER", "SMALLER"]), "size")
    if kind == "set":
        if n == 0:
            return ("all",)
        a, b = rnd.randint(1, n), rnd.randint(1, n)
        return ("set", rnd.choice([str(a), f"{a}:{b}", f"{a}:*", f"*:{a}", f"{a},{b}", "*", "1:*"]))
    if not uids:
        return ("all",)
    a, b = rnd.choice(uids), rnd.choice(uids) + rnd.choice([0, 0, 3])
    return ("uid", rnd.choice([str(a), f"{a}:{b}", f"{a}:*", f"{b},{a}", f"{max(uids) + 5}:*", "1:*"]))


def fix_dates(key, rnd, facts):
    """Replace date/size placeholders by concrete values taken near the
    messages' own values (boundary itself, or at least a day away)."""
    if key[0] in ("BEFORE", "ON", "SINCE"):
        ds = sorted({f["idate"] for f in facts}) or [dt.date(2020, 1, 1)]
        d = rnd.choice(ds) + dt.timedelta(days=rnd.choice([0, 0, -1, 1, 40, -40]))
        return (key[0], d, fmt_date(d, rnd))
    if key[0] in ("SENTBEFORE", "SENTON", "SENTSINCE"):
        ds = sorted({f["truth"]["sent"] for f in facts}) or [dt.date(2020, 1, 1)]
        d = rnd.choice(ds) + dt.timedelta(days=rnd.choice([0, 0, -1, 1, 40, -40]))
        return (key[0], d, fmt_date(d, rnd))
    if key[0] in ("LARGER", "SMALLER"):
        sz = sorted({f["size"] for f in facts}) or [100]
        return (key[0], rnd.choice(sz) + rnd.choice([0, 0, -1, 1, 50, -50]))
    if key[0] in ("not",):
        return ("not", fix_dates(key[1], rnd, facts))
    if key[0] in ("or", "and"):
        return (key[0],) + tuple(fix_dates(k, rnd, facts) for k in key[1:])
    return key


def astr(s, rnd):
    if s == "" or rnd.random() < 0.5 or not re.fullmatch(r"[A-Za-z0-9@.$_-]+", s):
        return '"' + s + '"'
    return s


def render(key, rnd):
    k = key[0]
    if k == "flag":
        return key[1]
    if k == "unflag":
        return "UN" + key[1]
    if k == "keyword":
        return "KEYWORD " + key[1]
    if k == "unkeyword":
        return "UNKEYWORD " + key[1]
    if k in ("new", "old", "all"):
        return k.upper()
    if k == "hdr":
        return f"{key[1]} {astr(key[2], rnd)}"
    if k == "header":
        return f"HEADER {key[1]} {astr(key[2], rnd)}"
    if k in ("body", "text"):
        return f"{k.upper()} {astr(key[1], rnd)}"
    if k in ("BEFORE", "ON", "SINCE", "SENTBEFORE", "SENTON", "SENTSINCE"):
        return f"{k} {key[2]}"
    if k in ("LARGER", "SMALLER"):
        return f"{k} {key[1]}"
    if k == "set":
        return key[1]
    if k == "uid":
        return "UID " + key[1]
    if k == "not":
        return "NOT " + render(key[1], rnd)
    if k == "or":
        return f"OR {render(key[1], rnd)} {render(key[2], rnd)}"
    if k == "and":
        return "(" + " ".join(render(x, rnd) for x in key[1:]) + ")"
    raise ValueError(key)


def ev(key, f, ctx):
    """Reference evaluation on one message's facts."""
    k = key[0]
    t = f["truth"]
    if k == "flag":
        return FLAGKEYS[key[1]] in f["flags"]
    if k == "unflag":
        return FLAGKEYS[key[1]] not in f["flags"]
    if k == "keyword":
        return key[1] in f["flags"]
    if k == "unkeyword":
        return key[1] not in f["flags"]
    if k == "new":
        return "\\Recent" in f["flags"] and "\\Seen" not in f["flags"]
    if k == "old":
        return "\\Recent" not in f["flags"]
    if k == "all":
        return True
    if k == "hdr":
        return any(key[2].lower() in v for v in t["headers"].get(key[1].lower(), []))
    if k == "header":
        return any(key[2].lower() in v for v in t["headers"].get(key[1].lower(), []))
    if k == "body":
        return key[1].lower() in t["body"]
    if k == "text":
        return key[1].lower() in t["text"]
    if k == "BEFORE":
        return f["idate"] < key[1]
    if k == "ON":
        return f["idate"] == key[1]
    if k == "SINCE":
        return f["idate"] >= key[1]
    if k in ("SENTBEFORE", "SENTON", "SENTSINCE"):
        if not t["has_date"]:
            return None  # not fixed by the property: header missing
        return {"SENTBEFORE": t["sent"] < key[1], "SENTON": t["sent"] == key[1], "SENTSINCE": t["sent"] >= key[1]}[k]
    if k == "LARGER":
        return f["size"] > key[1]
    if k == "SMALLER":
        return f["size"] < key[1]
    if k == "set":
        d, _ = den(key[1], ctx["uids"], False)
        return f["uid"] in d if d != REJECT else False
    if k == "uid":
        d, _ = den(key[1], ctx["uids"], True)
        return f["uid"] in d
    if k == "not":
        v = ev(key[1], f, ctx)
        return None if v is None else not v
    if k == "or":
        a, b = ev(key[1], f, ctx), ev(key[2], f, ctx)
        if a is True or b is True:
            return True
        if a is None or b is None:
            return None
        return False
    if k == "and":
        vs = [ev(x, f, ctx) for x in key[1:]]
        if any(v is False for v in vs):
            return False
        if any(v is None for v in vs):
            return None
        return True
    raise ValueError(key)


def keys_in(key, acc):
    acc.add(key[0] if key[0] not in ("flag", "unflag") else key[0] + ":" + key[1])
    for x in key[1:]:
        if isinstance(x, tuple):
            keys_in(x, acc)


def count_keys(key):
    return 1 + sum(count_keys(x) for x in key[1:] if isinstance(x, tuple))


async def search(s, text, uid=False):
    r = await s.cmd(("UID " if uid else "") + "SEARCH " + text)
    got = None
    if r.ok:
        got = set()
        for x in r.untagged("SEARCH"):
            got.update(x.data)
    return r, got


async def script(loop, ctx):
    k = ctx["script"]
    rnd = rng(ctx["seed"], "c14", k)
    cx = ctx["counts"]
    rig = await Rig(ctx["dir"] + "/mail", loop).start()
    cases = []
    keys_cov = set()
    try:
        s = rig.session("S")
        nm = rnd.choice([0, 1, 3, 6, 10, 10])
        truths = {}
        for i in range(nm):
            raw, t = make_mail(i, rnd)
            fl = [f for f in ["\\Seen", "\\Answered", "\\Flagged", "\\Deleted", "\\Draft"] + KEYWORDS if rnd.random() < 0.35]
            d = dt.date(2020, 6, 1) + dt.timedelta(days=rnd.randint(0, 30) * 11)
            tz = rnd.choice(["+0000", "-0500", "+0930", "+1300", "-1100"])
            hh = rnd.choice(["00:10:00", "12:00:00", "23:50:00"])
            r = await s.append("inbox", raw, flags=fl, date=f"{d.day:2d}-{MONTHS[d.month - 1]}-{d.year} {hh} {tz}")
            m = re.match(r"APPENDUID \d+ (\d+)", (r.tagged.code or "") if r.tagged else "")
            if not r.ok or not m:
                raise RuntimeError("append failed: " + r.brief())
            truths[int(m.group(1))] = t
        # expunge a couple so that UIDs are sparse
        w = rig.session("W")
        await w.cmd("SELECT inbox")
        if nm >= 6:
            victims = sorted(rnd.sample(range(1, nm + 1), 2))
            rr = await w.cmd(f"FETCH {victims[0]},{victims[1]} (UID)")
            for _, d_ in rr.fetches():
                truths.pop(d_.get("UID"), None)
            await w.cmd(f"STORE {victims[0]},{victims[1]} +FLAGS.SILENT (\\Deleted)")
            # only those two are to go
            await w.cmd("UID SEARCH DELETED")
            rs, deleted = await search(w, "DELETED", uid=True)
            keep = [u for u in (deleted or set()) if u in truths]
            if keep:
                await w.cmd(f"UID STORE {','.join(map(str, keep))} -FLAGS.SILENT (\\Deleted)")
            await w.cmd("EXPUNGE")
            if keep:
                await w.cmd(f"UID STORE {','.join(map(str, keep))} +FLAGS.SILENT (\\Deleted)")
        await w.cmd("LOGOUT")
        await s.cmd("EXAMINE inbox")
        next_i = [nm]
        from .hist_base import set_pack_limit

        pack_low = (k % 3 == 1)
        if pack_low:
            set_pack_limit(3, rig.server)  # the periodic check packs the folder (message files renumbered 1..N) whenever it has holes

        async def refresh():
            rf = await s.cmd("FETCH 1:* (UID FLAGS RFC822.SIZE INTERNALDATE)") if truths else None
            out = []
            if rf is not None:
                for n, d_ in sorted(rf.fetches(), key=lambda t: t[0]):
                    if "UID" not in d_:
                        continue
                    idt = dt.datetime.strptime(d_["INTERNALDATE"].strip(), "%d-%b-%Y %H:%M:%S %z")
                    out.append({"seq": n, "uid": d_["UID"], "flags": set(d_["FLAGS"]), "size": d_["RFC822.SIZE"], "idate": idt.date(), "truth": truths[d_["UID"]]})
            return out

        async def change_mailbox():
            """Between two rounds of programs the mailbox changes: the last message (and perhaps another) is expunged, new
            messages arrive -- they get the message numbers just freed --, flags change, the folder may be packed.  What
            SEARCH answers afterwards must be about the messages that are there now."""
            w2 = rig.session("W")
            await w2.cmd("SELECT inbox")
            cur = await refresh()
            if cur:
                victims = {cur[-1]["uid"]}
                if len(cur) > 2 and rnd.random() < 0.5:
                    victims.add(rnd.choice(cur[:-1])["uid"])
                _, deleted = await search(w2, "DELETED", uid=True)
                keep = [u for u in (deleted or set()) if u not in victims]
                if keep:
                    await w2.cmd(f"UID STORE {','.join(map(str, keep))} -FLAGS.SILENT (\\Deleted)")
                await w2.cmd(f"UID STORE {','.join(map(str, sorted(victims)))} +FLAGS.SILENT (\\Deleted)")
                await w2.cmd("EXPUNGE")
                if keep:
                    await w2.cmd(f"UID STORE {','.join(map(str, keep))} +FLAGS.SILENT (\\Deleted)")
                for u in victims:
                    truths.pop(u, None)
                cx["epoch_expunged"] += len(victims)
            if pack_low:
                await rig.advance(7)
            for _ in range(rnd.randint(1, 3)):
                i = next_i[0]
                next_i[0] += 1
                raw, t = make_mail(i, rnd)
                fl = [f for f in ["\\Seen", "\\Answered", "\\Flagged", "\\Draft"] + KEYWORDS if rnd.random() < 0.35]
                r_ = await w2.append("inbox", raw, flags=fl)
                m_ = re.match(r"APPENDUID \d+ (\d+)", (r_.tagged.code or "") if r_.tagged else "")
                if not r_.ok or not m_:
                    raise RuntimeError("append failed: " + r_.brief())
                truths[int(m_.group(1))] = t
                cx["epoch_appended"] += 1
            left = sorted(truths)
            if left and rnd.random() < 0.7:
                u = rnd.choice(left)
                await w2.cmd(f"UID STORE {u} {rnd.choice(['+', '-'])}FLAGS.SILENT ({rnd.choice(['\\Flagged', '\\Seen', KEYWORDS[0]])})")
            await w2.cmd("LOGOUT")
            await s.cmd("NOOP")
            cx["epochs"] += 1

        facts = await refresh()
        uids = [f["uid"] for f in facts]
        ectx = {"uids": uids}
        nprog = 30 if ctx["tier"] == "quick" else 60
        allseq = {f["seq"] for f in facts}
        epoch_at = {nprog // 3, (2 * nprog) // 3} if (nm and k % 2 == 0) else set()
        for pi in range(nprog):
            if pi in epoch_at:
                await change_mailbox()
                facts = await refresh()
                uids = [f["uid"] for f in facts]
                ectx = {"uids": uids}
                allseq = {f["seq"] for f in facts}
            depth = rnd.choice([0, 1, 2, 3, 4])
            key = fix_dates(("and",) + tuple(gen_key(rnd, len(facts), uids, depth, next_i[0]) for _ in range(rnd.randint(1, 3))), rnd, facts)
            text = " ".join(render(x, rnd) for x in key[1:])
            if rnd.random() < 0.1:
                text = "CHARSET " + rnd.choice(["UTF-8", "US-ASCII"]) + " " + text
            keys_in(key, keys_cov)
            r, got = await search(s, text)
            cx["programs"] += 1
            cid = f"s{k}.p{pi}"
            spec = ctx["spec"]
            problems = []
            if got is None:
                problems.append(("search-failed", f"SEARCH {text} -> {r.brief()}; log={[x[2][:160] for x in rig.log_records[-2:]]}"))
                if s.writer.closed or s.wire_error:
                    s = rig.session("S")
                    await s.cmd("EXAMINE inbox")
            else:
                want_yes = {f["seq"] for f in facts if ev(key, f, ectx) is True}
                want_maybe = {f["seq"] for f in facts if ev(key, f, ectx) is None}
                cx["reference_evals"] += len(facts)
                if not (want_yes <= got <= (want_yes | want_maybe)):
                    problems.append(("result-differs-from-reference", f"SEARCH {text}: got {sorted(got)} want {sorted(want_yes)}" + (f" (+ optional {sorted(want_maybe)})" if want_maybe else "")
                                     + f"; facts={[(f['seq'], f['uid'], sorted(f['flags']), f['size'], str(f['idate'])) for f in facts]}"))
                # laws
                ru, gotu = await search(s, text, uid=True)
                cx["law_instances"] += 1
                if gotu is None or gotu != {f["uid"] for f in facts if f["seq"] in got}:
                    problems.append(("uid-search-is-not-search-mapped", f"{text}: SEARCH {sorted(got)} UID SEARCH {sorted(gotu) if gotu is not None else None} uids {uids}"))
                law = rnd.choice(["not", "or", "and", "idem", "demorgan"])
                sub = " ".join(render(x, rnd) for x in key[1:])
                sub = "(" + sub + ")"
                if law == "not":
                    r2, g2 = await search(s, "NOT " + sub)
                    if g2 is None or g2 != allseq - got:
                        problems.append(("not-is-not-complement", f"{sub}: {sorted(got)} ; NOT: {sorted(g2) if g2 is not None else None} of {sorted(allseq)}"))
                else:
                    key2 = fix_dates(gen_key(rnd, len(facts), uids, 1, next_i[0]), rnd, facts)
                    t2 = render(key2, rnd)
                    keys_in(key2, keys_cov)
                    rb, gb = await search(s, t2)
                    if gb is not None:
                        if law == "or":
                            r3, g3 = await search(s, f"OR {sub} {t2}")
                            exp = got | gb
                        elif law == "and":
                            r3, g3 = await search(s, f"{sub} {t2}" if rnd.random() < 0.5 else f"({sub} {t2})")
                            exp = got & gb
                        elif law == "idem":
                            r3, g3 = await search(s, f"{sub} {sub}")
                            exp = got
                        else:
                            r3, g3 = await search(s, f"NOT OR {sub} {t2}")
                            r4, g4 = await search(s, f"NOT {sub} NOT {t2}")
                            exp = g4
                        if g3 is None or exp is None or g3 != exp:
                            problems.append((f"law-{law}-fails", f"{sub} / {t2}: {sorted(got)} / {sorted(gb)} -> {sorted(g3) if g3 is not None else None}, expected {sorted(exp) if exp is not None else None}"))
                cx["law_instances"] += 1
            nkeys = count_keys(key) - 1
            nontriv = nkeys >= 2 and got is not None and 0 < len(got) < len(facts)
            sample = {"messages": len(facts), "program": text[:200], "result": sorted(got) if got is not None else None}
            if problems:
                cases.append(Case.make(cid, VIOLATED, spec=spec, nontrivial=nontriv, key=common.h(text), sample=sample,
                                       witness={"kind": problems[0][0], "detail": problems[0][1], "all": [p[0] for p in problems], "program": text}))
            else:
                cases.append(Case.make(cid, HELD, spec=spec, nontrivial=nontriv, key=common.h([text, len(facts)]), sample=sample))
    finally:
        try:
            await rig.stop()
        except Exception:
            cx["stop_failed"] += 1
        try:
            from .hist_base import set_pack_limit as _spl

            _spl(100)
        except Exception:
            pass
    for kk in keys_cov:
        cx["key:" + kk] += 1
    return cases


def plan(tier, seed, scale):
    return base.plan_scripts(PROP, tier, seed, scale, quick=56, thorough=1400)


def run_shard(spec):
    return base.run_scripts(spec, script)


def replay_specs(rp):
    return base.replay_specs_from(rp)


def classify(w):
    return None


def finish(tier, seed, cases, results, errors, wall):
    counts = common.merge_counts(results)
    return common.finish(
        PROP, tier, seed, LEVEL, cases, wall=wall, errors=errors, classify=classify,
        rule=("one case = one search program generated from the RFC 3501 search grammar (depth <= 4, every key, quoted/atom strings, optional CHARSET) run "
              "against a mailbox of 0-10 generated messages with planted unique tokens, varied flags, internal dates in several time zones and sparse UIDs; the "
              "result is compared with an independent evaluator on server-reported facts (FLAGS, RFC822.SIZE, INTERNALDATE) plus ground truth, and with an "
              "algebraic law instance (NOT/OR/AND/idempotence/De Morgan, UID SEARCH mapping); non-trivial = >= 2 keys and a result that is neither empty nor "
              "everything; distinct = program text"),
        monitor_counts=dict(counts),
        floors={"programs": 500, "reference_evals": 2000, "law_instances": 500},
        assumptions=["SENT* keys on messages without a Date header, charset conversion and matching inside encoded words are not asserted"],
    )
