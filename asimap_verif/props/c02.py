"""C02 -- UIDs strictly ascending and never reused; UIDNEXT and UIDVALIDITY
honest.  Monitor: write-once UID ledger + UIDNEXT/UIDVALIDITY monotonicity
(history.World.reveal / told_uidnext / told_vv / _fresh_uid), checked after
every step."""
from .hist_base import HistProp, module_api

PROP = "C02"


async def sk_expunge_last_then_append(hp, w, rnd, ctx):
    """The classic reuse trap: expunge the highest UID, then add a message."""
    a = w.session()
    for i in range(4):
        await w.op_append(a, "INBOX")
    await w.op_select(a, "INBOX")
    await w.observe()
    await w.op_store(a, [4], "add", ["\\Deleted"])
    await w.op_expunge(a)
    await w.observe()
    await w.op_append(a, "INBOX")
    await w.observe()
    await w.restart()
    a = w.session()
    await w.op_select(a, "INBOX")
    await w.op_append(a, "INBOX")
    await w.observe()


async def sk_delete_recreate(hp, w, rnd, ctx):
    a = w.session()
    await w.op_create(a, "tmp")
    await w.op_append(a, "tmp")
    await w.op_append(a, "tmp")
    await w.observe()
    await w.op_delete(a, "tmp")
    await w.op_create(a, "tmp")
    await w.op_append(a, "tmp")
    await w.observe()
    await w.op_create(a, "arch/sub")
    await w.op_append(a, "arch")
    await w.observe()
    await w.op_delete(a, "arch")  # has an inferior -> placeholder
    await w.op_create(a, "arch")
    await w.op_append(a, "arch")
    await w.observe()


async def sk_delete_restart_recreate(hp, w, rnd, ctx):
    """The UIDVALIDITY counter itself must survive a restart: a mailbox that is
    deleted, and created again after the server was restarted, gets a larger
    UIDVALIDITY (its UIDs start over); likewise a mailbox renamed on to the
    name of a deleted one."""
    a = w.session()
    await w.op_create(a, "work")
    for i in range(3):
        await w.op_append(a, "work")
    await w.observe()
    await w.op_delete(a, "work")
    await w.restart()
    a = w.session()
    await w.op_create(a, "work")
    await w.op_append(a, "work")
    await w.op_append(a, "work")
    await w.observe()
    # second route: after another restart a new mailbox is created, the old one deleted, the new one renamed on to its name
    await w.restart()
    a = w.session()
    await w.op_create(a, "fresh")
    await w.op_append(a, "fresh")
    await w.observe()
    await w.op_delete(a, "work")
    await w.op_rename(a, "fresh", "work")
    await w.op_append(a, "work")
    await w.observe()
    await w.restart()
    a = w.session()
    await w.op_create(a, "last")
    await w.op_append(a, "last")
    await w.observe()


async def sk_delete_folder_with_stray_files_recreate(hp, w, rnd, ctx):
    """The MH folder of a mailbox holds files that are not messages (what
    `rmm` leaves behind, an editor's backup, a dot file) when it is deleted:
    the name created again is a new incarnation all the same -- larger
    UIDVALIDITY, UIDs from the start, nothing of the old one."""
    import os

    a = w.session()
    b2 = w.session()
    for nm in ("work", "deep/leaf"):
        await w.op_create(a, nm)
        for i in range(3):
            await w.op_append(a, nm, flags=["\\Seen"])
        await w.op_select(b2, nm)
        await w.op_fetch(b2, [1, 2, 3], "UID FLAGS")
        await w.op_select(b2, "INBOX")
    await w.observe()
    for nm, strays in (("work", [",2", "notes.txt"]), ("deep/leaf", [".hidden", "#3#"])):
        for s in strays:
            with open(os.path.join(str(w.rig.maildir), nm, s), "w") as f:
                f.write("Subject: not a message\n\nleft behind\n")
        w.stats["stray_files_in_deleted_folder"] += len(strays)
        await w.op_delete(a, nm)
        await w.op_create(a, nm)
        await w.op_append(a, nm)
        await w.op_append(a, nm)
        await w.observe()
    await w.restart()
    await w.observe()


async def sk_folders_found_at_startup(hp, w, rnd, ctx):
    """MH folders made by other tools while the server was down are found
    together when it starts.  One of them is deleted and another renamed on to
    its name: the name now denotes another incarnation, so its UIDVALIDITY is
    not the one it had."""
    import mailbox

    from ..history import MBox

    a = w.session()
    await w.op_append(a, "INBOX")
    await w.observe()
    for nm in ("exta", "extb", "extc", "extd"):
        mailbox.MH(str(w.rig.maildir / nm), create=True)
        w.boxes[nm] = MBox(nm)
        w.boxes[nm].vv = None
        w.deliver(nm, 2, unseen=[True, False])
    w.stats["folders_made_while_down"] += 4
    await w.restart()
    a = w.session()
    await w.observe()
    await w.op_select(a, "exta")
    await w.op_fetch(a, [1, 2], "UID FLAGS")
    await w.op_select(a, "INBOX")
    await w.op_delete(a, "exta")
    await w.op_rename(a, "extb", "exta")
    await w.observe()
    await w.op_append(a, "exta")
    await w.op_delete(a, "extc")
    await w.op_create(a, "extc")
    await w.op_append(a, "extc")
    await w.observe()


async def sk_delivery_during_a_multi_message_copy(hp, w, rnd, ctx):
    """The MH agent files a message in the destination folder while a COPY of
    several messages is adding its copies there (the delivery is made after k
    turns of the event loop, for a spread of k): COPYUID names, for every
    source UID, the UID under which that copy is found afterwards."""
    import asyncio
    import re

    from ..gen import cid_of_fetch
    from ..history import expand_uidset

    a = w.session()
    for i in range(4):
        await w.op_append(a, "INBOX")
    await w.op_select(a, "INBOX")
    await w.ensure_uids_known(a)
    await w.observe()
    src = {m.uid: m.cid for m in w.boxes["INBOX"].msgs}
    x = w.rig.session("X")
    hits = 0
    import os

    for k in (1, 2, 3, 1, 2, 3, 1, 2):
        name = f"cpd{k}x{hits}x{w.stats['copyuid_pairs_checked']}"
        await x.cmd(f"CREATE {name}")
        await x.append(name, b"From: z@z\r\nX-CID: first\r\n\r\nalready there\r\n")
        t = asyncio.ensure_future(a.s.cmd(f"UID COPY 1:4 {name}"))
        # wait until k of the copies are in the folder, then file the outsider
        folder = str(w.rig.maildir / name)
        for _ in range(200000):
            await asyncio.sleep(0)
            if t.done() or sum(1 for f in os.listdir(folder) if f.isdigit()) >= 1 + k:
                break
        w.rig.deliver_raw(name, b"From: ext@z\nX-CID: extmsg\n\nfiled by the agent meanwhile\n")
        r = await t
        code = (r.tagged.code or "") if r.tagged else ""
        m = re.match(r"COPYUID (\d+) (\S+) (\S+)", code + " ")
        if not r.ok or not m:
            w.viol(["C02", "C05"], "copy-refused", f"UID COPY 1:4 {name} -> {r.brief()}")
            break
        su, du = expand_uidset(m.group(2)), expand_uidset(m.group(3))
        await x.cmd(f"EXAMINE {name}")
        rf = await x.cmd("UID FETCH 1:* (UID BODY.PEEK[HEADER.FIELDS (X-CID)])")
        at = {d["UID"]: cid_of_fetch(d) for n, d in rf.fetches() if "UID" in d}
        order = [at[u] for u in sorted(at)]
        if "extmsg" in order and 1 < order.index("extmsg") < len(order) - 1:
            hits += 1
        w.stats["copyuid_pairs_checked"] += len(su)
        for s_, d_ in zip(su, du):
            if at.get(d_) != src.get(s_):
                w.viol(["C02"], "copyuid-names-other-message", f"UID COPY 1:4 {name} with a delivery after the first {k} copies: [{code}] says source UID {s_} ({src.get(s_)}) is UID {d_} there, "
                                                             f"which is {at.get(d_)}; the mailbox holds {[(u, at[u]) for u in sorted(at)]}")
        if len(su) != len(du) or len(su) != 4:
            w.viol(["C02", "C05"], "copyuid-length-mismatch", f"{code}")
        await x.cmd("UNSELECT")
        await x.cmd(f"DELETE {name}")
    w.stats["deliveries_between_two_copies_of_one_copy_command"] += hits
    await x.cmd("LOGOUT")
    await w.op_noop(a)
    await w.observe()


async def sk_kill_between_commands(hp, w, rnd, ctx):
    """The user process is killed (not shut down) at quiet moments -- after a
    DELETE that left a placeholder, after a delete-and-create, after a RENAME,
    after an EXPUNGE: every answer it had given before stays true afterwards
    (UIDVALIDITY of a name created again larger than any it had; UIDNEXT above
    every UID revealed; UIDs naming what they named)."""
    a = w.session()
    await w.op_create(a, "proj/sub")
    for i in range(3):
        await w.op_append(a, "proj", flags=["\\Seen"])
    await w.op_select(a, "proj")
    await w.op_fetch(a, [1, 2, 3], "UID FLAGS")
    await w.op_select(a, "INBOX")
    await w.observe()
    await w.op_delete(a, "proj")  # stays as a placeholder: proj/sub exists
    await w.observe()
    await w.restart(kill=True)
    a = w.session()
    await w.op_create(a, "proj")
    await w.op_append(a, "proj")
    await w.observe()
    await w.op_create(a, "leaf")
    await w.op_append(a, "leaf")
    await w.op_append(a, "leaf")
    await w.observe()
    await w.op_delete(a, "leaf")
    await w.op_create(a, "leaf")
    await w.restart(kill=True)
    a = w.session()
    await w.op_append(a, "leaf")
    await w.observe()
    await w.op_rename(a, "leaf", "twig")
    await w.op_append(a, "twig")
    await w.restart(kill=True)
    a = w.session()
    await w.op_create(a, "leaf")
    await w.op_append(a, "leaf")
    await w.op_append(a, "twig")
    await w.observe()
    await w.op_select(a, "twig")
    await w.op_store(a, [1, 2], "add", ["\\Deleted"])
    await w.op_expunge(a)
    await w.restart(kill=True)
    a = w.session()
    await w.op_append(a, "twig")
    await w.observe()


async def sk_expunge_all_restart_deliver(hp, w, rnd, ctx):
    a = w.session()
    for i in range(3):
        await w.op_append(a, "INBOX", flags=["\\Deleted"])
    await w.op_select(a, "INBOX")
    await w.observe()
    await w.op_expunge(a)
    await w.observe()
    await w.restart()
    w.deliver("INBOX", 2)
    a = w.session()
    await w.op_select(a, "INBOX")
    await w.observe()


async def sk_rename_then_refill(hp, w, rnd, ctx):
    a = w.session()
    await w.op_create(a, "other")
    for i in range(3):
        await w.op_append(a, "other")
    await w.observe()
    await w.op_rename(a, "other", "moved")
    await w.op_create(a, "other")
    await w.op_append(a, "other")
    await w.op_append(a, "moved")
    await w.observe()
    await w.op_rename(a, "INBOX", "saved")
    await w.op_append(a, "INBOX")
    await w.observe()


class C02(HistProp):
    prop = PROP
    names = ["INBOX", "other", "arch"]
    skeletons = [sk_expunge_last_then_append, sk_delete_recreate, sk_expunge_all_restart_deliver, sk_rename_then_refill, sk_delete_restart_recreate, sk_delete_folder_with_stray_files_recreate, sk_kill_between_commands, sk_folders_found_at_startup, sk_delivery_during_a_multi_message_copy]
    weights = {"append": 12, "store_del": 9, "expunge": 8, "uid_expunge": 4, "copy": 6, "move": 5, "deliver": 6, "restart": 2, "create": 2, "delete": 2,
               "rename": 1, "rename_inbox": 1, "advance": 4, "idle": 1, "fetch_body": 1, "store": 2}
    opts = {"create_names": ["other", "arch", "arch/sub", "tmp"], "rename_targets": ["moved", "arch/moved", "deep/er", "saved"]}
    pack_limits = [100, 4, 8]
    observer_cadence = [1, 1, 2]

    def nontrivial(self, w):
        s = w.stats
        return s["expunged_msgs"] + s["close_expunged"] >= 1 and (s["appends"] + s["copied_msgs"] + s["delivered_msgs"]) >= 2 and s["ledger_reobs"] >= 1


hp = C02()
plan, run_shard, replay_specs, finish = module_api(
    hp, quick=128, thorough=5000,
    rule=("one case = one history over 3-4 mailbox names mixing message-adding/removing commands, CREATE/DELETE/RENAME, external deliveries, orderly "
          "restarts and packing (pack threshold lowered to 4/8 in two of three shards); ledger and UIDNEXT/UIDVALIDITY rules are evaluated after every "
          "step by an observer; non-trivial = a revealed UID was expunged and later messages arrived and UIDs were re-observed; "
          "distinct = hash of the operation sequence with numbers abstracted"),
    floors={"ledger_obs": 300, "ledger_reobs": 100, "uidnext_told": 100, "vv_told": 100, "expunged_msgs": 20},
)
