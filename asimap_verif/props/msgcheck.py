"""Shared workload of C07 (everything sent is well-formed IMAP; strings
round-trip) and C16 (data items mutually consistent and faithful).

Each script = one server; generated messages (gen_msg) and fixture messages
are delivered as files and by APPEND and fetched with every data item form.
Monitor hits are tagged with the properties they refute."""
import os
import email
import email.header
import email.policy
import re

from .. import common
from ..common import Case, HELD, INCONCLUSIVE, VIOLATED
from ..gen import rng
from ..gen_msg import fixture_messages, make_message
from ..rig import Rig
from ..wire import Lit, QStr
from . import base


def unfold(v):
    return re.sub(r"\r?\n([ \t])", r"\1", v)


def dec2047(b):
    """RFC 2047-decode + collapse white space (comparison form)."""
    if b is None:
        return None
    s = b.decode("latin-1") if isinstance(b, (bytes, bytearray)) else b
    try:
        parts = email.header.decode_header(s)
        out = ""
        for txt, cs in parts:
            if isinstance(txt, bytes):
                try:
                    out += txt.decode(cs or "latin-1", "replace")
                except LookupError:
                    out += txt.decode("latin-1")
            else:
                out += txt
    except Exception:
        out = s
    return " ".join(out.split())


def raw_header_fields(raw):
    """(name, unfolded value) pairs from raw message bytes, written from RFC
    5322 section 2.2 (independent of email.policy)."""
    head = re.split(rb"\r?\n\r?\n", raw, maxsplit=1)[0]
    fields = []
    for line in re.split(rb"\r?\n", head):
        if line[:1] in (b" ", b"\t") and fields:
            fields[-1][1] += b" " + line.strip()
        elif re.match(rb"[!-9;-~]+[ \t]*:", line):
            n, v = line.split(b":", 1)
            fields.append([n.strip().decode("latin-1"), v.strip()])
    return fields


def body_of(raw):
    parts = re.split(rb"\r?\n\r?\n", raw, maxsplit=1)
    return parts[1] if len(parts) > 1 else b""


class Ctx:
    def __init__(self):
        self.viols = []
        self.stats = {}

    def inc(self, k, n=1):
        self.stats[k] = self.stats.get(k, 0) + n

    def viol(self, props, kind, detail, **data):
        self.viols.append({"props": props, "kind": kind, "detail": str(detail)[:700], "data": data})


def lits(d):
    return {k: (bytes(v) if v is not None else None) for k, v in d.items() if isinstance(v, (Lit, QStr)) or v is None}


async def fetch1(s, text):
    r = await s.cmd(text)
    return r, (r.fetches()[0][1] if r.ok and r.fetches() else None)


async def examine_message(cx, s, uid, seq, info, how, mbox):
    """All data-item equations for one stored message."""
    tag = f"{how} {info['shape']} {info.get('cid') or info.get('name')}"
    r, d = await fetch1(s, f"UID FETCH {uid} (RFC822.SIZE BODY.PEEK[] BODY.PEEK[HEADER] BODY.PEEK[TEXT] RFC822.HEADER INTERNALDATE FLAGS)")
    if d is None:
        cx.viol(["C06", "C16"], "fetch-of-stored-message-failed", f"{tag}: {r.brief()}", shape=info["shape"], klass=info.get("klass"))
        return False
    full, hdr, txt = d.get("BODY[]"), d.get("BODY[HEADER]"), d.get("BODY[TEXT]")
    if full is None or hdr is None or txt is None:
        cx.viol(["C16"], "body-literal-nil", f"{tag}: {sorted(d)}")
        return True
    full, hdr, txt = bytes(full), bytes(hdr), bytes(txt)
    cx.inc("eq_size")
    if d["RFC822.SIZE"] != len(full):
        cx.viol(["C16"], "size-differs-from-body", f"{tag}: RFC822.SIZE {d['RFC822.SIZE']} != |BODY[]| {len(full)}", shape=info["shape"])
    cx.inc("eq_header_text")
    if hdr + txt != full:
        cx.viol(["C16"], "header-plus-text-differs-from-body", f"{tag}: |HEADER| {len(hdr)} + |TEXT| {len(txt)} vs |BODY[]| {len(full)}; tail H={hdr[-12:]!r} T={txt[:12]!r}.. full tail={full[-16:]!r}",
                shape=info["shape"], text_len=len(txt), body_of_raw_len=len(body_of(info["raw"])))
    if bytes(d.get("RFC822.HEADER") or b"") != hdr:
        cx.viol(["C16"], "rfc822.header-differs", tag)
    for name, lit in (("BODY[]", full), ("BODY[HEADER]", hdr), ("BODY[TEXT]", txt)):
        cx.inc("eq_crlf")
        bad = [m.start() for m in re.finditer(rb"(?<!\r)\n|\r(?!\n)", lit)]
        if bad:
            where = "other"
            if name != "BODY[HEADER]" and all(
                re.search(rb"\r\n\r\n[\r\n]*$", lit[:b]) and re.match(rb"[\r\n]*--", lit[b:]) for b in bad
            ):
                # only line breaks between the blank line that ends a header
                # block and a boundary line: a multipart's (empty) preamble
                where = "multipart-preamble"
            elif _has_unencodable_header(info["raw"]):
                # the message has a header the renderer cannot fold (an encoded word cut in the
                # middle of a multi-octet character, ...): it takes its raw fallback, which
                # writes the stored lines with the line ends of the file
                where = "unencodable-header-fallback"
            cx.viol(["C16"], "bare-cr-or-lf-in-literal", f"{tag}: {name} at {bad[:4]}: {lit[max(0, bad[0] - 30) : bad[0] + 12]!r}", shape=info["shape"], where=where)
            break
    r3, d3 = await fetch1(s, f"UID FETCH {uid} (RFC822 RFC822.TEXT)")
    if d3 is not None:
        cx.inc("eq_rfc822")
        if bytes(d3.get("RFC822") or b"") != full:
            cx.viol(["C16"], "rfc822-differs-from-body", tag)
        if bytes(d3.get("RFC822.TEXT") or b"") != txt:
            cx.viol(["C16"], "rfc822.text-differs", tag)
    else:
        cx.viol(["C06", "C16"], "fetch-of-stored-message-failed", f"{tag}: RFC822: {r3.brief()}", shape=info["shape"])
    # partials
    rnd = info["rnd"]
    n = len(full)
    for (o, c) in [(0, 10), (rnd.randint(0, max(1, n)), rnd.randint(1, 60)), (max(0, n - 5), 20), (n + 3, 5), (rnd.randint(0, max(1, n)), n + 10)]:
        rp, dp = await fetch1(s, f"UID FETCH {uid} (BODY.PEEK[]<{o}.{c}>)")
        if dp is None:
            cx.viol(["C16", "C06"], "partial-fetch-failed", f"{tag}: <{o}.{c}> {rp.brief()}")
            continue
        got = [v for k, v in dp.items() if k.startswith("BODY[]")]
        key = [k for k in dp if k.startswith("BODY[]")]
        cx.inc("eq_partial")
        want = full[o : o + c]
        if not got or bytes(got[0] or b"") != want:
            cx.viol(["C16"], "partial-is-not-the-slice", f"{tag}: <{o}.{c}> gave {len(bytes(got[0] or b'')) if got else None} octets, want {len(want)}")
        if key and key[0] != f"BODY[]<{o}>":
            cx.viol(["C07", "C16"], "partial-origin-not-echoed", f"{tag}: {key}")
    # partials of the sections: slices of what the un-sliced section is (offsets at both ends, sections that are empty included)
    for sec, whole in (("TEXT", txt), ("HEADER", hdr)):
        m_ = len(whole)
        for (o, c) in [(0, 1), (1, rnd.randint(1, 40)), (0, 2), (max(0, m_ - 1), 4), (m_, 2), (rnd.randint(0, m_ + 2), rnd.randint(1, m_ + 5))]:
            rp, dp = await fetch1(s, f"UID FETCH {uid} (BODY.PEEK[{sec}]<{o}.{c}>)")
            if dp is None:
                cx.viol(["C16", "C06"], "partial-fetch-failed", f"{tag}: [{sec}]<{o}.{c}> {rp.brief()}")
                continue
            got = [v for k, v in dp.items() if k.startswith(f"BODY[{sec}]")]
            cx.inc("eq_partial_section")
            if m_ == 0:
                cx.inc("eq_partial_of_empty_section")
            want = whole[o : o + c]
            if not got or bytes(got[0] or b"") != want:
                cx.viol(["C16"], "partial-is-not-the-slice", f"{tag}: [{sec}]<{o}.{c}> gave {bytes(got[0] or b'')[:20]!r} ({len(bytes(got[0] or b'')) if got else None} octets), want {want[:20]!r} ({len(want)}) of a section of {m_}")
    # repeatability
    r2, d2 = await fetch1(s, f"UID FETCH {uid} (RFC822.SIZE BODY.PEEK[] BODY.PEEK[HEADER] BODY.PEEK[TEXT] RFC822.HEADER INTERNALDATE FLAGS)")
    cx.inc("eq_repeat")
    if d2 is None or lits(d2) != lits(d) or d2.get("RFC822.SIZE") != d.get("RFC822.SIZE"):
        cx.viol(["C16"], "repeated-fetch-differs", tag)
    # structure items, sections, macros: mainly for the wire monitor
    r4, d4 = await fetch1(s, f"UID FETCH {uid} (ENVELOPE BODY BODYSTRUCTURE)")
    if d4 is None:
        cx.viol(["C06", "C16", "C07"], "structure-fetch-failed", f"{tag}: {r4.brief()}", shape=info["shape"])
    else:
        check_envelope_roundtrip(cx, d4.get("ENVELOPE"), info, tag)
        check_from_name_roundtrip(cx, d4.get("ENVELOPE"), info, tag)
    await s.cmd(f"UID FETCH {uid} (BODY.PEEK[1] BODY.PEEK[1.MIME] BODY.PEEK[HEADER.FIELDS (Subject X-CID)] BODY.PEEK[HEADER.FIELDS.NOT (Subject To)])")
    await s.cmd(f"UID FETCH {uid} (BODY.PEEK[2] BODY.PEEK[2.HEADER] BODY.PEEK[1.1] BODY.PEEK[2.TEXT])")
    # header field names that are not atoms (only expressible as quoted strings or literals): the item
    # echoed in the response must still be well-formed (the strict parser validates the section spec)
    await s.cmd(f'UID FETCH {uid} (BODY.PEEK[HEADER.FIELDS ("a)b" "sub ject" "x\\"y" Subject)] BODY.PEEK[HEADER.FIELDS.NOT ("(" "]" "%*")])')
    await s.cmd(f"UID FETCH {uid} (BODY.PEEK[HEADER.FIELDS (".encode() + b"{5+}\r\nab\r\nc {1+}\r\n\\ Subject)])")
    cx.inc("hostile_header_name_fetches", 2)
    for macro in ("FAST", "ALL", "FULL"):
        await s.cmd(f"FETCH {seq} {macro}")
    cx.inc("messages_examined")
    info["fetched"] = {"full": full, "hdr": hdr, "txt": txt, "idate": d.get("INTERNALDATE")}
    return True


def check_envelope_roundtrip(cx, env, info, tag):
    if env is None or "headers" not in info:
        return
    hv = {}
    for n, v in info["headers"]:
        hv.setdefault(n.lower(), v)
    if any(ord(c) > 126 for v in hv.values() for c in v):
        # raw 8-bit in a header: its "value" is not defined by RFC 5322
        for k in list(hv):
            if any(ord(c) > 126 for c in hv[k]):
                del hv[k]
    for idx, name in ((0, "date"), (1, "subject"), (8, "in-reply-to"), (9, "message-id")):
        cx.inc("envelope_roundtrips")
        want = hv.get(name)
        got = env[idx]
        if want is None:
            if name not in [n.lower() for n, _ in info["headers"]] and got is not None:
                cx.viol(["C07"], "envelope-field-for-missing-header", f"{tag}: {name} -> {bytes(got)!r}")
            continue
        if got is None:
            if want.strip() == "":
                continue
            cx.viol(["C07"], "envelope-field-nil-for-present-header", f"{tag}: {name}: header value {want!r}")
            continue
        if name == "date" and _same_instant(bytes(got).decode("latin-1"), want):
            continue  # the same date-time, re-spelled
        if dec2047(bytes(got)) != dec2047(unfold(want)):
            cx.viol(["C07"], "envelope-string-differs-from-header", f"{tag}: {name}: transported {bytes(got)!r}, header {want!r}", field=name)


def check_from_name_roundtrip(cx, env, info, tag):
    """The display name of a single-address From header, when it is a plain
    phrase or an encoded word (no quoting or comments whose reading differs
    between parsers), decodes to the same text as the header's."""
    if env is None or "headers" not in info:
        return
    froms = [v for n, v in info["headers"] if n.lower() == "from"]
    if len(froms) != 1:
        return
    m = re.fullmatch(r"\s*((?:=\?[^?\s]+\?[bBqQ]\?[^?\s]*\?=)|(?:[A-Za-z][A-Za-z ]*[A-Za-z]))\s*<([^<>@\s]+)@([^<>@\s]+)>\s*", unfold(froms[0]))
    if not m:
        return
    cx.inc("from_name_roundtrips")
    al = env[2]
    if not isinstance(al, list) or len(al) != 1:
        cx.viol(["C07"], "envelope-from-differs-from-header", f"{tag}: header {froms[0]!r}, ENVELOPE from {al!r:.120}")
        return
    name, adl, mbox, host = al[0]
    got = (dec2047(bytes(name)) if name is not None else None, bytes(mbox).decode("latin-1") if mbox is not None else None, bytes(host).decode("latin-1") if host is not None else None)
    want = (dec2047(m.group(1)), m.group(2), m.group(3))
    if got != want:
        cx.viol(["C07"], "envelope-from-differs-from-header", f"{tag}: header gives {want!r}, ENVELOPE transports {got!r} ({bytes(name) if name is not None else None!r})", field="from")


def _has_unencodable_header(raw):
    """Does the stored message have a header that email.policy cannot fold
    (the mechanism of the known raw-fallback finding)?  Decided with the same
    stdlib call the renderer uses."""
    try:
        m = email.message_from_bytes(raw, policy=email.policy.SMTP)
        for h, v in m.raw_items():
            try:
                m.policy.fold_binary(h, v)
            except (UnicodeEncodeError, UnicodeDecodeError):
                return True
    except Exception:
        return False
    return False


def _same_instant(a, b):
    import email.utils

    try:
        return email.utils.parsedate_to_datetime(a) == email.utils.parsedate_to_datetime(b)
    except Exception:
        return False


def header_multiset(raw):
    out = []
    for n, v in raw_header_fields(raw):
        out.append((n.lower(), dec2047(v)))
    return sorted(out)


def decoded_body(raw):
    """Transfer-decoded leaf payloads, line endings normalised."""
    try:
        m = email.message_from_bytes(raw, policy=email.policy.compat32)
    except Exception:
        return None
    out = []
    for part in m.walk():
        if part.is_multipart():
            continue
        p = part.get_payload(decode=True)
        if p is None:
            p = b""
        out.append(p.replace(b"\r\n", b"\n").rstrip(b"\n"))
    return out


_STRUCTURED = ("content-type", "content-disposition")


def _norm_structured(pairs):
    """Parameter values of structured MIME headers may be re-spelled with or
    without quotes and re-folded by the renderer: same field, same value."""
    out = []
    for n, v in pairs:
        if n in _STRUCTURED and v is not None:
            v = re.sub(r"\s*;\s*", ";", v.replace('"', "")).strip()
            v = re.sub(r"\s*=\s*", "=", v)
        out.append((n, v))
    return sorted(out)


def check_append_fidelity(cx, info, tag):
    f = info.get("fetched")
    if not f:
        return
    cx.inc("append_fidelity_checks")
    a, b = _norm_structured(header_multiset(info["raw"])), _norm_structured(header_multiset(f["full"]))
    if a != b:
        miss = [x for x in a if x not in b]
        extra = [x for x in b if x not in a]
        cx.viol(["C16"], "append-header-fields-differ", f"{tag}: missing {miss[:3]} extra {extra[:3]}", shape=info["shape"], missing=[m[0] for m in miss], extra=[e[0] for e in extra])
    da, db = decoded_body(info["raw"]), decoded_body(f["full"])
    if info["shape"] == "fixture" and (da is None or db is None or len(da) != len(db)):
        # corpus message whose MIME structure the two parses read differently
        # (e.g. base64-encoded message/delivery-status): content comparison
        # part by part is not meaningful; not asserted
        cx.inc("body_compare_skipped_structure")
    elif da != db:
        cx.viol(["C16"], "append-body-content-differs", f"{tag}", shape=info["shape"])
    else:
        cx.inc("append_body_compares")


HOSTILE_NAMES = ['quo"te', "back\\slash", "sp ace", "per%cent", "st*ar", "par(en", "br{ace", "caf\xe9", "amp&ersand", "a/b c/d"]


async def names_and_errors(cx, rig, rnd):
    """C07: mailbox names in LIST/LSUB/STATUS decode to the names created;
    error texts echoing client input stay on one line."""
    s = rig.session("N")
    made = []
    for nm in HOSTILE_NAMES:
        enc = rnd.choice(["quoted", "literal"])
        raw = nm.encode("latin-1")
        if enc == "quoted":
            arg = b'"' + raw.replace(b"\\", b"\\\\").replace(b'"', b'\\"') + b'"'
        else:
            arg = b"{%d+}\r\n" % len(raw) + raw
        r = await s.cmd(b"CREATE " + arg)
        cx.inc("hostile_names_tried")
        if r.ok:
            made.append(nm)
            await s.cmd(b"SUBSCRIBE " + arg)
            r2 = await s.cmd(b"STATUS " + arg + b" (MESSAGES UIDNEXT)")
            for x in r2.untagged("STATUS"):
                got = bytes(x.data["name"]).decode("latin-1") if not isinstance(x.data["name"], str) else str(x.data["name"])
                cx.inc("name_roundtrips")
                if got != nm:
                    cx.viol(["C07"], "status-name-does-not-decode", f"created {nm!r}, STATUS says {got!r}")
        if s.wire_error or s.writer.closed:
            s = rig.session("N")
    for cmdname in ("LIST", "LSUB"):
        r = await s.cmd(f'{cmdname} "" *')
        names = set()
        for x in r.untagged(cmdname):
            v = x.data["name"]
            names.add(bytes(v).decode("latin-1") if not isinstance(v, str) else str(v))
        if r.ok:
            for nm in made:
                cx.inc("name_roundtrips")
                if nm not in names and nm.split("/")[0] not in names:
                    cx.viol(["C07", "C17"], "list-name-does-not-decode", f"{cmdname}: created {nm!r}, listed {sorted(names)[:12]}")
        if s.wire_error or s.writer.closed:
            s = rig.session("N")
    # error paths that echo client input
    for arg in (b"{5+}\r\na\r\nb\r", b'"no such \\"box\\""', b"{3+}\r\n\n\n\n", b'"tab\there"'):
        for verb in (b"SELECT ", b"STATUS ", b"DELETE ", b"RENAME x ", b"APPEND "):
            tail = b" (MESSAGES)" if verb == b"STATUS " else (b" {1+}\r\nx" if verb == b"APPEND " else b"")
            await s.cmd(verb + arg + tail)
            cx.inc("error_echo_cmds")
            if s.wire_error or s.writer.closed:
                s = rig.session("N")
    await s.idle()
    s.feed(b"not done\r\nwith CRLF")
    await rig.settle()
    s.feed(b"a1 IDLE")
    await rig.settle()
    await s.done()
    for t in (b"\x00\x01bad tag", b"tag FETCH 1 (BODY[HEADER.FIELDS (\"a\\\"b\")])", b"t LOGIN {3+}\r\na\r\nb pw"):
        s.feed(t)
        await rig.settle()
        s.pump()
        if s.wire_error or s.writer.closed:
            s = rig.session("N")


async def several_messages_in_one_fetch(cx, rig, s, rnd):
    """One FETCH that names every message of a mailbox, with partial items whose
    end lies inside some messages and beyond the end of others, and with several
    sections at once: every message's answer is the slice of that message's own
    section (what was answered for one message has no bearing on the next)."""
    for box in ("appended", "filed"):
        if s.wire_error or s.writer.closed:
            s = rig.session("M")
        r = await s.cmd("SELECT " + box)
        if not r.ok:
            continue
        rf = await s.cmd("UID FETCH 1:* (UID BODY.PEEK[] BODY.PEEK[TEXT] BODY.PEEK[HEADER])")
        if not rf.ok:
            continue
        whole = {}
        for n, d in rf.fetches():
            if "UID" in d and d.get("BODY[]") is not None:
                whole[d["UID"]] = {"": bytes(d["BODY[]"]), "TEXT": bytes(d.get("BODY[TEXT]") or b""), "HEADER": bytes(d.get("BODY[HEADER]") or b"")}
        if len(whole) < 2:
            continue
        sizes = sorted(len(v[""]) for v in whole.values())
        tsizes = sorted(len(v["TEXT"]) for v in whole.values())
        cands = [(0, sizes[0] + 1), (0, sizes[len(sizes) // 2]), (3, sizes[0]), (sizes[0] // 2, sizes[-1]), (0, 1), (sizes[0], 10)]
        for (o, c) in cands[: 4] + [rnd.choice(cands)]:
            o2, c2 = rnd.choice([(0, tsizes[0] + 1), (1, max(1, tsizes[len(tsizes) // 2])), (0, max(1, tsizes[-1] // 2))])
            verb = rnd.choice(["FETCH 1:*", "UID FETCH 1:*"])
            rp = await s.cmd(f"{verb} (UID BODY.PEEK[]<{o}.{c}> BODY.PEEK[TEXT]<{o2}.{c2}> BODY.PEEK[HEADER]<0.{c}>)")
            if not rp.ok:
                cx.viol(["C16", "C06"], "partial-fetch-failed", f"{box}: {verb} <{o}.{c}>: {rp.brief()}")
                continue
            for n, d in rp.fetches():
                w_ = whole.get(d.get("UID"))
                if w_ is None:
                    continue
                for sec, (oo, cc) in (("", (o, c)), ("TEXT", (o2, c2)), ("HEADER", (0, c))):
                    got = [v for k_, v in d.items() if k_.startswith(f"BODY[{sec}]<")]
                    if not got:
                        continue
                    cx.inc("eq_partial_in_multi_message_fetch")
                    want = w_[sec][oo : oo + cc]
                    if bytes(got[0] or b"") != want:
                        cx.viol(["C16"], "partial-is-not-the-slice", f"{box} uid {d.get('UID')} in one {verb} over {len(whole)} messages: [{sec}]<{oo}.{cc}> gave {len(bytes(got[0] or b''))} octets, "
                                         f"the slice of this message's section ({len(w_[sec])} octets) has {len(want)}", shape="multi-message-fetch")
                        break


async def after_folder_changes(cx, rig, s, rnd):
    """The equations still hold once the folder has changed under the messages:
    lower messages expunged and the folder packed by the periodic check (message
    files renumbered), the last message expunged and another one filed under its
    number.  Per surviving UID: RFC822.SIZE and BODY[] are what they were, and
    RFC822.SIZE = |BODY[]| for every message that is there now."""
    from .hist_base import set_pack_limit

    if s.wire_error or s.writer.closed:
        s = rig.session("M")
    r = await s.cmd("SELECT filed")
    if not r.ok:
        return

    async def table():
        rr = await s.cmd("FETCH 1:* (UID RFC822.SIZE BODY.PEEK[])")
        out = {}
        if rr.ok:
            for _n, d in rr.fetches():
                if "UID" in d and d.get("BODY[]") is not None:
                    out[d["UID"]] = (d.get("RFC822.SIZE"), bytes(d["BODY[]"]))
        return out

    def judge(before, after, where):
        for u, (sz, body) in after.items():
            cx.inc("eq_size_after_change")
            if sz != len(body):
                cx.viol(["C16", "C03"], "size-differs-from-body-after-folder-change", f"{where}: uid {u}: RFC822.SIZE {sz}, BODY[] has {len(body)} octets")
                return False
            if u in before and before[u] != (sz, body):
                cx.viol(["C16", "C03"], "message-data-changed-after-folder-change", f"{where}: uid {u}: RFC822.SIZE {before[u][0]} -> {sz}, BODY[] {'same' if before[u][1] == body else 'differs'}")
                return False
        return True

    t0 = await table()
    if len(t0) < 5:
        return
    uids = sorted(t0)
    set_pack_limit(3, rig.server)
    try:
        # (a) the last message goes, another is filed under its number
        await s.cmd(f"UID STORE {uids[-1]} +FLAGS.SILENT (\\Deleted)")
        await s.cmd("EXPUNGE")
        rig.deliver_raw("filed", b"From: after@change.example\r\nSubject: filed under a freed number\r\n\r\n" + b"another body entirely\r\n" * rnd.randint(1, 9))
        await rig.advance(7)
        await s.cmd("NOOP")
        t1 = await table()
        cx.inc("folder_change_rounds")
        if not judge(t0, t1, "after expunge of the last message and a delivery under its number"):
            return
        # (b) lower messages go, the periodic check packs the folder
        low = uids[: max(2, len(uids) // 3)]
        await s.cmd(f"UID STORE {','.join(map(str, low))} +FLAGS.SILENT (\\Deleted)")
        await s.cmd("EXPUNGE")
        await rig.advance(12)
        await s.cmd("NOOP")
        t2 = await table()
        cx.inc("folder_change_rounds")
        keys = sorted(int(x) for x in os.listdir(rig.maildir / "filed") if x.isdigit())
        if keys and keys == list(range(1, len(keys) + 1)):
            cx.inc("folder_packed")
        judge(t1, t2, "after expunge of the lower messages and a pack")
    finally:
        set_pack_limit(100, rig.server)


async def script(loop, ctx):
    k = ctx["script"]
    rnd = rng(ctx["seed"], "msg", k)
    cx = Ctx()
    rig = await Rig(ctx["dir"] + "/mail", loop).start()
    per = ctx.get("per_script", 10)
    infos = []
    try:
        s = rig.session("M")
        await s.cmd("CREATE filed")
        await s.cmd("CREATE appended")
        await s.cmd("CREATE copied")
        msgs = []
        fx = fixture_messages() if k == 0 else []
        for name, data in fx[: ctx.get("max_fixtures", 40)]:
            msgs.append({"raw": data, "klass": ["fixture"], "shape": "fixture", "name": name, "hostile": False, "rnd": rnd})
        shapes = ["simple", "multipart", "nested", "rfc822", "nested822", "empty", "headeronly", "nofinalnl", "lf", "mixedeol", "alt"]
        for i in range(per):
            force = shapes[(k * per + i) % len(shapes)] if i < len(shapes) else None
            m = make_message(rnd, f"g{k}-{i}", force=force)
            m["rnd"] = rnd
            msgs.append(m)
        for m in msgs:
            cx.inc("messages_generated")
            tagbase = f"{m['shape']} {m.get('cid') or m.get('name')}"
            # (1) as a file
            rig.deliver_raw("filed", m["raw"])
            if s.wire_error or s.writer.closed:
                s = rig.session("M")
            r = await s.cmd("SELECT filed")
            ex = [x.num for x in r.responses if x.kind == "num" and x.name == "EXISTS"]
            if r.ok and ex and ex[-1]:
                rr, dd = await fetch1(s, f"FETCH {ex[-1]} (UID)")
                if dd:
                    mi = dict(m)
                    await examine_message(cx, s, dd["UID"], ex[-1], mi, "file", "filed")
                    # COPY fidelity
                    rc = await s.cmd(f"UID COPY {dd['UID']} copied")
                    mm = re.match(r"COPYUID \d+ \S+ (\d+)", (rc.tagged.code or "") if rc.tagged else "")
                    if rc.ok and mm and mi.get("fetched"):
                        await s.cmd("SELECT copied")
                        r5, d5 = await fetch1(s, f"UID FETCH {mm.group(1)} (BODY.PEEK[] INTERNALDATE)")
                        cx.inc("copy_fidelity_checks")
                        if d5 is None or bytes(d5.get("BODY[]") or b"") != mi["fetched"]["full"]:
                            cx.viol(["C16", "C05"], "copy-not-byte-identical", f"{tagbase}")
            else:
                cx.viol(["C06"], "select-failed", r.brief())
            # (2) by APPEND
            if s.wire_error or s.writer.closed:
                s = rig.session("M")
            ra = await s.append("appended", m["raw"])
            cx.inc("appends_tried")
            if ra.ok:
                cx.inc("appends_ok")
                mu = re.match(r"APPENDUID \d+ (\d+)", ra.tagged.code or "")
                await s.cmd("SELECT appended")
                if mu:
                    ma = dict(m)
                    rr, dd = await fetch1(s, f"UID FETCH {mu.group(1)} (UID)")
                    seq = rr.fetches()[0][0] if rr.ok and rr.fetches() else 1
                    if await examine_message(cx, s, int(mu.group(1)), seq, ma, "append", "appended"):
                        check_append_fidelity(cx, ma, "append " + tagbase)
            elif ra.status not in ("NO", "BAD") or s.writer.closed:
                cx.viol(["C06", "C16"], "append-killed-connection", f"{tagbase}: {ra.brief()} closed={s.writer.closed}", shape=m["shape"], klass=m["klass"])
            else:
                cx.inc("appends_refused")
                if s.writer.closed is False and "Unhandled" in (ra.tagged.text or ""):
                    cx.viol(["C06", "C16"], "append-unhandled-exception", f"{tagbase}: {ra.brief()}", shape=m["shape"], klass=m["klass"])
            infos.append({"shape": m["shape"], "klass": m["klass"], "hostile": m.get("hostile"), "id": m.get("cid") or m.get("name")})
        await several_messages_in_one_fetch(cx, rig, s, rnd)
        await after_folder_changes(cx, rig, s, rnd)
        if k % 4 == 0:
            await names_and_errors(cx, rig, rnd)
        for sess in rig.sessions:
            sess.pump()
            if not sess.writer.closed and sess.trailing() and sess.wire_error is None:
                rig.wire_errors.append({"session": sess.name, "rule": "crlf", "msg": "octets left that do not form a complete response", "context": sess.trailing()[:100].decode("latin-1"), "after": [x[1][:80] for x in sess.sent[-2:]]})
    finally:
        try:
            await rig.stop()
        except Exception:
            cx.inc("stop_failed")
    for we in rig.wire_errors:
        cx.viol(["C07"], "malformed-response:" + we["rule"], f"{we['msg']}: {we['context']!r} after {we['after']}", rule=we["rule"], context=we["context"])
    for kk in ("bytes_parsed",):
        pass
    cx.stats["responses_parsed"] = sum(v for kk, v in rig.counts.items() if kk.startswith("resp:"))
    for kk, v in rig.counts.items():
        if kk.startswith("leniency:"):
            cx.stats[kk] = cx.stats.get(kk, 0) + v
    cx.stats["octets_parsed"] = sum(s.pos for s in rig.sessions)
    cx.stats["literals_checked"] = cx.stats.get("eq_size", 0) * 6
    for kk, v in cx.stats.items():
        ctx["counts"][kk] += v
    prop = ctx["spec"]["prop"]
    own = [v for v in cx.viols if prop in v["props"]]
    for v in cx.viols:
        if prop not in v["props"]:
            ctx["counts"]["other:" + "/".join(v["props"]) + ":" + v["kind"]] += 1
    nontriv = any(i["hostile"] or set(i["klass"]) & {"multipart", "8bit", "lf", "mixedeol", "nofinalnl", "empty", "headeronly", "rfc822", "nested822", "fixture"} for i in infos)
    sample = {"messages": infos[:12], "stats": dict(cx.stats)}
    cases = []
    if own:
        # one case per distinct (kind, shape)
        seen = set()
        for v in own:
            sig = (v["kind"], (v.get("data") or {}).get("shape"), (v.get("data") or {}).get("rule"), (v.get("data") or {}).get("where"), (v.get("data") or {}).get("field"))
            if sig in seen:
                continue
            seen.add(sig)
            cases.append(Case.make(f"m{k}:{v['kind']}:{sig[1] or sig[2] or ''}", VIOLATED, spec=ctx["spec"], nontrivial=nontriv, key=common.h([k, sig]), sample=sample,
                                   witness={"kind": v["kind"], "detail": v["detail"], "props": v["props"], "data": v.get("data") or {}}))
    else:
        cases.append(Case.make(f"m{k}", HELD, spec=ctx["spec"], nontrivial=nontriv, key=common.h([k, [i["id"] for i in infos]]), sample=sample))
    return cases
