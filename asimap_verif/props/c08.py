"""C08 -- command parsing is total and means what RFC 3501 says.

Monitors on the real IMAPClientCommand(...).parse(): totality (only
BadCommand may escape, CPU budget) and meaning (an independent reference
reader of the RFC 3501 command grammar decides for any input whether it is a
sentence and, if so, its AST; the real parser must agree).  A sample of
rejected inputs also goes through the real proxy: BAD, connection stays up."""
import os
import re
import time
from collections import Counter

from .. import common, refparse
from ..common import Case, HELD, INCONCLUSIVE, VIOLATED
from ..gen import rng
from ..rig import Rig
from . import base

PROP = "C08"
LEVEL = "exploration"
JAIL = True

ATOMS = ["a", "kw1", "$Forwarded", "NonJunk", "a-b.c", "123", "x_y", "A1", "foo]bar", "a:b", "a=b", "&AOk-", "~home"]
STRINGS = ["plain", "with space", 'qu"ote', "back\\slash", "", "8bit\xe9", "paren(", "star*", "pct%", "br{ace", "line\r\nbreak", "]", "INBOX", "inbox", "InBoX", "inboxfoo", "a/b", "a//b", "a/./b", "a/b/", "../x", "/abs", "NIL", "see footnote {3}", "ends {2+}", "{0}", "x{12}",
           # octets that are well-formed UTF-8 (the transport carries octets; one character per octet is how both processes read them)
           "jos\xc3\xa9", "\xe2\x82\xacuro 5", "na\xc3\xafve caf\xc3\xa9 \xf0\x9f\x93\xa7"]
FLAGS = ["\\Seen", "\\Answered", "\\Flagged", "\\Deleted", "\\Draft", "\\Recent", "\\seen", "\\FooBar", "kw1", "$Forwarded", "a:b", "unseen"]


def enc_astring(rnd, s, allow_atom=True):
    atom_ok = s != "" and all(ord(c) > 32 and ord(c) < 127 and c not in '(){ %*"\\' for c in s) and s.upper() != "NIL"
    choice = rnd.choice(["atom", "quoted", "literal", "literal+"]) if allow_atom and atom_ok else rnd.choice(["quoted", "literal", "literal+"])
    if choice == "quoted" and any(c in s for c in "\r\n\x00"):
        choice = "literal"
    if choice == "atom":
        return s
    if choice == "quoted":
        return '"' + s.replace("\\", "\\\\").replace('"', '\\"') + '"'
    return "{%d%s}\r\n%s" % (len(s), "+" if choice == "literal+" else "", s)


def gen_set(rnd):
    def num():
        return rnd.choice(["1", "2", "7", "*", "4294967295", str(rnd.randint(1, 500))])

    parts = []
    for _ in range(rnd.choice([1, 1, 1, 2, 3])):
        parts.append(num() if rnd.random() < 0.5 else num() + ":" + num())
    return ",".join(parts)


def gen_date(rnd):
    d = f"{rnd.randint(1, 28)}-{rnd.choice(['Jan', 'feb', 'MAR', 'Dec'])}-{rnd.randint(1990, 2030)}"
    return '"' + d + '"' if rnd.random() < 0.4 else d


def gen_search_key(rnd, depth):
    r = rnd.random()
    if depth > 0 and r < 0.15:
        return "NOT " + gen_search_key(rnd, depth - 1)
    if depth > 0 and r < 0.3:
        return f"OR {gen_search_key(rnd, depth - 1)} {gen_search_key(rnd, depth - 1)}"
    if depth > 0 and r < 0.42:
        return "(" + " ".join(gen_search_key(rnd, depth - 1) for _ in range(rnd.randint(1, 3))) + ")"
    k = rnd.choice(["ALL", "ANSWERED", "DELETED", "FLAGGED", "NEW", "OLD", "RECENT", "SEEN", "UNANSWERED", "UNDELETED", "UNFLAGGED", "UNSEEN", "DRAFT", "UNDRAFT",
                    "BCC", "CC", "FROM", "TO", "SUBJECT", "BODY", "TEXT", "BEFORE", "ON", "SINCE", "SENTBEFORE", "SENTON", "SENTSINCE", "KEYWORD", "UNKEYWORD",
                    "LARGER", "SMALLER", "HEADER", "UID", "SET"])
    k = "".join(c.upper() if rnd.random() < 0.8 else c.lower() for c in k)
    ku = k.upper()
    if ku in ("BCC", "CC", "FROM", "TO", "SUBJECT", "BODY", "TEXT"):
        return f"{k} {enc_astring(rnd, rnd.choice(STRINGS))}"
    if ku in ("BEFORE", "ON", "SINCE", "SENTBEFORE", "SENTON", "SENTSINCE"):
        return f"{k} {gen_date(rnd)}"
    if ku in ("KEYWORD", "UNKEYWORD"):
        return f"{k} {rnd.choice(ATOMS[:7])}"
    if ku in ("LARGER", "SMALLER"):
        return f"{k} {rnd.randint(0, 100000)}"
    if ku == "HEADER":
        return f"{k} {enc_astring(rnd, rnd.choice(['X-Tag', 'Subject', 'x y']))} {enc_astring(rnd, rnd.choice(STRINGS))}"
    if ku == "UID":
        return f"{k} {gen_set(rnd)}"
    if ku == "SET":
        return gen_set(rnd)
    return k


def gen_section(rnd):
    parts = ".".join(str(rnd.randint(1, 4)) for _ in range(rnd.choice([0, 0, 1, 2])))
    kind = rnd.choice(["", "HEADER", "TEXT", "MIME", "HEADER.FIELDS", "HEADER.FIELDS.NOT", "header", "Text"])
    if kind.upper() == "MIME" and not parts:
        kind = "TEXT"
    if kind.upper().startswith("HEADER.FIELDS"):
        kind += " (" + " ".join(enc_astring(rnd, rnd.choice(["Subject", "X-CID", "To", "x y"])) for _ in range(rnd.randint(1, 3))) + ")"
    inner = ".".join(x for x in (parts, kind) if x)
    return "[" + inner + "]"


def gen_fetch_att(rnd):
    k = rnd.choice(["ENVELOPE", "FLAGS", "INTERNALDATE", "RFC822", "RFC822.HEADER", "RFC822.SIZE", "RFC822.TEXT", "UID", "BODYSTRUCTURE", "BODY", "BODY[]", "BODY.PEEK[]", "body", "flags", "Rfc822.Size"])
    if k.upper() in ("BODY[]", "BODY.PEEK[]"):
        s = k[:-2] + gen_section(rnd)
        if rnd.random() < 0.3:
            s += f"<{rnd.randint(0, 99)}.{rnd.randint(1, 99)}>"
        return s
    return k


def gen_sentence(rnd):
    """A sentence of the command grammar (text without trailing CRLF)."""
    tag = rnd.choice(["a1", "A001", "x.y", "1", "tag-7", "z]", "T", "a:b", "a&b"])
    mbox = lambda: enc_astring(rnd, rnd.choice(STRINGS))  # noqa: E731
    c = rnd.choice(["CAPABILITY", "NOOP", "LOGOUT", "CHECK", "CLOSE", "EXPUNGE", "IDLE", "NAMESPACE", "UNSELECT", "SELECT", "EXAMINE", "CREATE", "DELETE", "SUBSCRIBE",
                    "UNSUBSCRIBE", "RENAME", "LOGIN", "AUTHENTICATE", "LIST", "LIST", "LSUB", "STATUS", "ID", "APPEND", "APPEND", "SEARCH", "SEARCH", "SEARCH", "FETCH", "FETCH",
                    "FETCH", "STORE", "STORE", "COPY", "MOVE", "UID FETCH", "UID STORE", "UID SEARCH", "UID COPY", "UID MOVE", "UID EXPUNGE"])
    cs = "".join(ch.upper() if rnd.random() < 0.85 else ch.lower() for ch in c)
    cu = c
    if cu in ("CAPABILITY", "NOOP", "LOGOUT", "CHECK", "CLOSE", "EXPUNGE", "IDLE", "NAMESPACE", "UNSELECT"):
        return f"{tag} {cs}"
    if cu in ("SELECT", "EXAMINE", "CREATE", "DELETE", "SUBSCRIBE", "UNSUBSCRIBE"):
        return f"{tag} {cs} {mbox()}"
    if cu == "RENAME":
        return f"{tag} {cs} {mbox()} {mbox()}"
    if cu == "LOGIN":
        return f"{tag} {cs} {enc_astring(rnd, rnd.choice(['user', 'us er', 'u\"x', 'jos\xc3\xa9']))} {enc_astring(rnd, rnd.choice(STRINGS))}"
    if cu == "AUTHENTICATE":
        return f"{tag} {cs} {rnd.choice(['PLAIN', 'login', 'CRAM-MD5'])}"
    if cu in ("LIST", "LSUB"):
        ref = enc_astring(rnd, rnd.choice(["", "a/", "a", "INBOX", "x y"]))
        pat = lambda: (rnd.choice(["*", "%", "a*", "%/%", "INBOX", "inbox", "a/b*%", "x]"]) if rnd.random() < 0.6 else enc_astring(rnd, rnd.choice(["", "a b", "*", "Inbox", 'q"']), allow_atom=False))  # noqa: E731
        if cu == "LSUB" or rnd.random() < 0.5:
            return f"{tag} {cs} {ref} {pat()}"
        s = f"{tag} {cs} "
        if rnd.random() < 0.5:
            s += "(" + " ".join(rnd.sample(["SUBSCRIBED", "REMOTE", "RECURSIVEMATCH", "SPECIAL-USE", "subscribed"], rnd.randint(0, 2))) + ") "
            s = s.replace("(RECURSIVEMATCH)", "(SUBSCRIBED RECURSIVEMATCH)").replace("(REMOTE RECURSIVEMATCH)", "(SUBSCRIBED)").replace("(RECURSIVEMATCH REMOTE)", "(SUBSCRIBED)")
            s = s.replace("(SUBSCRIBED subscribed)", "(SUBSCRIBED)").replace("(subscribed SUBSCRIBED)", "(SUBSCRIBED)")
        s += ref + " "
        if rnd.random() < 0.4:
            s += "(" + " ".join(pat() for _ in range(rnd.randint(1, 3))) + ")"
        else:
            s += pat()
        if rnd.random() < 0.6:
            opts = rnd.sample(["SUBSCRIBED", "CHILDREN", "SPECIAL-USE", "STATUS (MESSAGES UNSEEN)", "STATUS (UIDNEXT)"], rnd.randint(0, 3))
            if sum(1 for o in opts if o.startswith("STATUS")) > 1:
                opts = [o for o in opts if not o.startswith("STATUS")]
            s += " RETURN (" + " ".join(opts) + ")"
        return s
    if cu == "STATUS":
        return f"{tag} {cs} {mbox()} ({' '.join(rnd.sample(['MESSAGES', 'RECENT', 'UIDNEXT', 'UIDVALIDITY', 'UNSEEN', 'messages'], rnd.randint(1, 4)))})"
    if cu == "ID":
        if rnd.random() < 0.3:
            return f"{tag} {cs} NIL"
        pairs = []
        for _ in range(rnd.randint(0, 3)):
            pairs.append(enc_astring(rnd, rnd.choice(["name", "version", "os x"]), allow_atom=False) + " " + (rnd.choice(["NIL", "nil"]) if rnd.random() < 0.3 else enc_astring(rnd, rnd.choice(STRINGS), allow_atom=False)))
        return f"{tag} {cs} (" + " ".join(pairs) + ")"
    if cu == "APPEND":
        msg = rnd.choice(["From: a@b\r\nX-CID: zz\r\n\r\nbody zz\r\n", "x", "", "a1 NOOP\r\n", "8bit \xe9\xff\r\n{5}\r\n"])
        s = f"{tag} {cs} {mbox()}"
        if rnd.random() < 0.5:
            s += " (" + " ".join(rnd.sample(FLAGS, rnd.randint(0, 3))) + ")"
        if rnd.random() < 0.4:
            s += ' "%2d-%s-%d %02d:%02d:%02d %s%02d%02d"' % (rnd.randint(1, 28), rnd.choice(["Jan", "Feb", "dec"]), rnd.randint(1990, 2030), rnd.randint(0, 23), rnd.randint(0, 59), rnd.randint(0, 59), rnd.choice("+-"), rnd.randint(0, 13), rnd.choice([0, 30]))
        return s + " {%d%s}\r\n%s" % (len(msg), rnd.choice(["", "+"]), msg)
    if cu.endswith("SEARCH"):
        s = f"{tag} {cs} "
        if rnd.random() < 0.2:
            s += f"CHARSET {enc_astring(rnd, rnd.choice(['UTF-8', 'us-ascii']))} "
        return s + " ".join(gen_search_key(rnd, rnd.choice([0, 1, 2, 3])) for _ in range(rnd.randint(1, 3)))
    if cu.endswith("FETCH"):
        r = rnd.random()
        if r < 0.2:
            att = rnd.choice(["ALL", "FAST", "FULL", "fast"])
        elif r < 0.5:
            att = gen_fetch_att(rnd)
        else:
            att = "(" + " ".join(gen_fetch_att(rnd) for _ in range(rnd.randint(1, 4))) + ")"
        return f"{tag} {cs} {gen_set(rnd)} {att}"
    if cu.endswith("STORE"):
        fl = rnd.sample(FLAGS, rnd.randint(1, 3))
        flags = "(" + " ".join(fl) + ")" if rnd.random() < 0.7 else " ".join(fl)
        if rnd.random() < 0.1:
            flags = "()"
        return f"{tag} {cs} {gen_set(rnd)} {rnd.choice(['', '+', '-'])}{rnd.choice(['FLAGS', 'flags', 'FLAGS.SILENT', 'Flags.Silent'])} {flags}"
    if cu.endswith("COPY") or cu.endswith("MOVE"):
        return f"{tag} {cs} {gen_set(rnd)} {mbox()}"
    if cu == "UID EXPUNGE":
        return f"{tag} {cs} {gen_set(rnd)}"
    raise AssertionError(cu)


def mutate(rnd, s):
    m, kind = _mutate(rnd, s)
    # the per-user process decodes its input as latin-1: no character above
    # U+00FF can reach the parser (str.swapcase can create some)
    return "".join(c if ord(c) < 256 else "?" for c in m), kind


def _mutate(rnd, s):
    kind = rnd.choice(["trunc", "trunc", "del", "ins", "rep", "dup", "garbage", "case", "ctl", "space", "paren"])
    if not s:
        return "x", kind
    i = rnd.randrange(len(s))
    if kind == "trunc":
        return s[:i], kind
    if kind == "del":
        return s[:i] + s[i + 1 :], kind
    if kind == "ins":
        return s[:i] + rnd.choice(list(' (){}[]"\\*%:,.+-0aZ\r\n')) + s[i:], kind
    if kind == "rep":
        return s[:i] + rnd.choice(list(' (){}[]"\\*%:,.+-0aZ\x00\xff')) + s[i + 1 :], kind
    if kind == "dup":
        toks = s.split(" ")
        j = rnd.randrange(len(toks))
        return " ".join(toks[: j + 1] + toks[j:]), kind
    if kind == "garbage":
        return s + rnd.choice([" x", " ", "x", " ()", " NIL", ")", " {0}\r\n", "\r\nb NOOP"]), kind
    if kind == "case":
        return s[:i] + s[i:].swapcase(), kind
    if kind == "ctl":
        return s[:i] + rnd.choice(["\x00", "\x7f", "\r", "\n", "\t"]) + s[i:], kind
    if kind == "space":
        return s.replace(" ", "  ", 1) if rnd.random() < 0.5 else s.replace(" ", "", 1), kind
    return s[:i] + rnd.choice(["(", ")", "((", "))"]) + s[i:], kind


SPECIALS = [
    ("deep-parens", "a SEARCH " + "(" * 3000 + "ALL" + ")" * 3000),
    ("deep-not", "a SEARCH " + "NOT " * 3000 + "ALL"),
    ("long-set", "a FETCH " + ",".join(str(i) for i in range(1, 4000)) + " FLAGS"),
    ("huge-number", "a FETCH " + "9" * 400 + " FLAGS"),
    ("many-spaces", "a" + " " * 5000 + "NOOP"),
    ("quote-run", 'a SELECT "' + "\\" * 5001),
    ("regex-bait", "a SEARCH BEFORE " + "1-" * 3000),
    ("header-fields-many", "a FETCH 1 BODY[HEADER.FIELDS (" + " ".join("h%d" % i for i in range(3000)) + ")]"),
    # thousands of digits wherever a number may stand (int() refuses them: must surface as BadCommand)
    ("digits-seqset", "a FETCH " + "1" * 5000 + " FLAGS"),
    ("digits-range", "a UID FETCH 1:" + "9" * 4400 + " FLAGS"),
    ("digits-search", "a SEARCH LARGER " + "7" * 6000),
    ("digits-literal", "a APPEND x {" + "1" * 4400 + "}\r\n"),
    ("digits-partial", "a FETCH 1 BODY[]<" + "1" * 4500 + ".5>"),
    ("digits-status", "a SEARCH UID " + "3" * 4301 + ":*"),
    # just outside the grammar: none of these is a sentence (each was accepted by the parser at some point)
    ("fetch-empty-list", "a FETCH 1 ()"),
    ("fetch-empty-list-uid", "a UID FETCH 1:* ()"),
    ("section-no-dot", "a FETCH 1 BODY[3TEXT]"),
    ("section-no-dot-peek", "a FETCH 1 (BODY.PEEK[1HEADER])"),
    ("section-part-zero", "a FETCH 1 BODY[0]"),
    ("section-part-zero-inner", "a FETCH 1 BODY[1.0.TEXT]"),
    ("section-trailing-dot", "a FETCH 1 BODY[1.]"),
    ("section-trailing-dot-partial", "a FETCH 1 BODY[2.1.]<0.10>"),
    ("search-empty-list", "a SEARCH ()"),
    ("search-empty-inner-list", "a SEARCH SEEN () FLAGGED"),
    ("status-empty-list", "a STATUS inbox ()"),
    ("store-unparenthesised-two-flags-then-paren", "a STORE 1 +FLAGS \\Seen ("),
    ("set-zero", "a FETCH 0 FLAGS"),
    ("set-trailing-comma", "a FETCH 1, FLAGS"),
    ("set-double-colon", "a FETCH 1::3 FLAGS"),
    ("partial-no-count", "a FETCH 1 BODY[]<5>x"),
    ("empty", ""),
    ("only-tag", "a"),
    ("only-tag-sp", "a "),
    ("nul", "a\x00 NOOP"),
]


# ----------------------------------------------------------- projection
def proj_set(ms):
    return [tuple(e) if isinstance(e, (tuple, list)) else e for e in ms]


def proj_search(k):
    op = k.op.value
    a = k.args
    if op == "and":
        lst = [proj_search(x) for x in a["search_key"]]
        return ("and", lst)
    if op == "or":
        return ("or", [proj_search(x) for x in a["search_key"]])
    if op == "not":
        return ("not", proj_search(a["search_key"]))
    if op == "keyword":
        return ("keyword", a["keyword"])
    if op == "header":
        return ("header", a["header"].lower(), a["string"].lower())
    if op in ("body", "text"):
        return (op, a["string"].lower())
    if op in ("before", "on", "since", "sentbefore", "senton", "sentsince"):
        return (op, a["date"])
    if op in ("larger", "smaller"):
        return (op, a["n"])
    if op in ("message_set", "uid"):
        return (op, proj_set(a["msg_set"]))
    if op == "all":
        return ("all",)
    return (op, repr(a))


def norm_search(k):
    """('and',[x]) == x, recursively; system flag keywords case-folded."""
    if k[0] in ("and", "or"):
        lst = [norm_search(x) for x in k[1]]
        if k[0] == "and" and len(lst) == 1:
            return lst[0]
        return (k[0], lst)
    if k[0] == "not":
        return ("not", norm_search(k[1]))
    return k


def proj_fetch(atts):
    out = []
    for a in atts:
        at = a.attribute.value
        if at == "body":
            sect = []
            for s in a.section or []:
                if isinstance(s, (tuple, list)):
                    sect.append((str(s[0]).lower(), [str(x).lower() for x in s[1]]))
                elif isinstance(s, int):
                    sect.append(s)
                else:
                    sect.append(str(s).lower())
            out.append({"att": "body", "section": sect, "peek": bool(a.peek), "partial": tuple(a.partial) if a.partial else None})
        elif at == "bodystructure":
            out.append({"att": "bodystructure", "noext": True} if not a.ext_data else {"att": "bodystructure"})
        else:
            out.append({"att": at})
    return out


def name_escapes(n):
    """Does a mailbox name, read as a path below the mail directory (one
    leading '/' being the namespace prefix), leave it or denote it?"""
    if not isinstance(n, str) or n == "" or n.upper() == "INBOX":
        return False
    p = os.path.normpath(n)
    rel = p[1:] if p[0] == "/" else p
    return rel in ("", ".", "..") or rel[0] == "/" or rel.startswith("../")


def compare(ast, cmd, last_literal):
    """List of (field, ref, real) differences between the reference AST and
    the real parse result."""
    diffs = []

    def d(field, ref, real):
        if ref != real:
            diffs.append((field, ref, real))

    d("tag", ast["tag"], cmd.tag)
    d("command", ast["cmd"], cmd.command)
    d("uid", ast["uid"], bool(cmd.uid_command))
    c = ast["cmd"]

    def mbox(field, ref, real):
        # the server's namespace convention: one leading '/' (the hierarchy
        # delimiter used as prefix) denotes the same mailbox as the name
        # without it, and the parser hands on the latter
        def unprefixed(n):
            return n[1:] if isinstance(n, str) and len(n) > 1 and n[0] == "/" and n[1] != "/" else n

        for r in (ref, unprefixed(ref)):
            if (r.upper() == "INBOX" and real == "inbox") or real == r:
                return
        if ref != "" and real in (os.path.normpath(ref), unprefixed(os.path.normpath(ref))):
            diffs.append((field + ":normpath", ref, real))
        else:
            diffs.append((field, ref, real))

    if c in ("select", "examine", "create", "delete", "subscribe", "unsubscribe", "status", "append", "copy", "move"):
        mbox("mailbox", ast["mailbox"], getattr(cmd, "mailbox_name", None))
    if c == "rename":
        mbox("src", ast["src"], getattr(cmd, "mailbox_src_name", None))
        mbox("dst", ast["dst"], getattr(cmd, "mailbox_dst_name", None))
    if "set" in ast:
        d("set", ast["set"], proj_set(cmd.msg_set))
    if c == "login":
        d("user", ast["user"], cmd.user_name)
        d("password", ast["password"], cmd.password)
    if c == "authenticate":
        d("mechanism", ast["mechanism"], cmd.auth_mechanism_name.lower())
    if c in ("list", "lsub"):
        mbox("reference", ast["reference"], cmd.mailbox_name)
        if ast["patterns"] is not None:
            ref = ["inbox" if p.upper() == "INBOX" else p for p in ast["patterns"]]
            d("patterns", ref, list(cmd.list_patterns))
        else:
            d("pattern", ast["pattern"], cmd.list_mailbox)
        d("select_opts", ast["select_opts"], {o.value for o in cmd.list_select_opts})
        d("return_opts", ast["return_opts"], {o.value for o in cmd.list_return_opts})
        d("list_status_atts", ast["status_atts"], [str(a.value if hasattr(a, "value") else a) for a in cmd.list_status_atts])
    if c == "status":
        d("status_atts", ast["status_atts"], [str(a.value if hasattr(a, "value") else a) for a in cmd.status_att_list])
    if c == "id":
        d("id", ast["id"], dict(cmd.id_dict))
    if c == "append":
        d("flags", ast["flags"], list(cmd.flag_list))
        rd = cmd.date_time
        if (ast["date_time"] is None) != (rd is None) or (rd is not None and ast["date_time"] != rd):
            diffs.append(("date_time", ast["date_time"], rd))
        d("message-literal", ast["message"], last_literal)
    if c == "store":
        d("action", ast["action"], {"REPLACE_FLAGS": "replace", "ADD_FLAGS": "add", "REMOVE_FLAGS": "remove"}[cmd.store_action.name])
        d("silent", ast["silent"], bool(cmd.silent))
        d("flags", ast["flags"], list(cmd.flag_list))
    if c == "fetch":
        d("fetch", ast["fetch"], proj_fetch(cmd.fetch_atts))
    if c == "search":
        d("charset", ast["charset"], cmd.charset)
        d("search", norm_search(ast["search"]), norm_search(proj_search(cmd.search_key)))
    return diffs


_CANON = {"\\answered": "\\Answered", "\\flagged": "\\Flagged", "\\deleted": "\\Deleted", "\\seen": "\\Seen", "\\draft": "\\Draft", "\\recent": "\\Recent"}


def canon_flags_in_ast(ast):
    """System flags are case-insensitive: the reference compares them in
    canonical spelling (as the real parser now reports them)."""
    if "flags" in ast:
        ast["flags"] = [_CANON.get(f.lower(), f) for f in ast["flags"]]
    return ast


def evaluate(text, budget=0.5):
    """Run both readers on one input.  Returns dict(verdict, kind, ...)."""
    from asimap.parse import BadCommand, IMAPClientCommand

    class Probe(IMAPClientCommand):
        _last = None

        def _p_string(self):
            v = super()._p_string()
            self._last = v
            return v

    try:
        ast = canon_flags_in_ast(refparse.read(text))
        ref_err = None
    except refparse.NotSentence as e:
        ast, ref_err = None, str(e)
    except RecursionError:
        ast, ref_err = None, "reference reader recursion limit"
    t0 = time.perf_counter()
    cmd = Probe(text)
    exc = None
    bad_text = ""
    try:
        cmd.parse()
        accepted = True
    except BadCommand as e:
        accepted = False
        bad_text = str(e)
    except BaseException as e:  # noqa: B036
        accepted = False
        exc = e
    elapsed = time.perf_counter() - t0
    res = {"accepted": accepted, "sentence": ast is not None, "elapsed": elapsed}
    if exc is not None:
        res.update(kind="non-badcommand-exception", detail=f"{type(exc).__name__}: {str(exc)[:120]}", exc=type(exc).__name__)
        return res
    if elapsed > budget:
        res.update(kind="cpu-budget", detail=f"{elapsed:.2f}s for {len(text)} chars")
        return res
    if ast is None and accepted:
        left = cmd.input
        if left not in ("", "\r\n"):
            # does the reference accept what the real parser consumed?
            res.update(kind="accepts-non-sentence", mech="leftover-input", detail=f"accepted with {left[:30]!r} left unparsed ({ref_err})", leftover=left[:40])
        else:
            # zero as a sequence number?
            mech = None
            try:
                old = refparse.R.number

                def number(self, nz=False):
                    return old(self, nz=False)

                refparse.R.number = number
                try:
                    refparse.read(text)
                    mech = "zero-sequence-number"
                finally:
                    refparse.R.number = old
            except refparse.NotSentence:
                pass
            if mech is None:
                refparse.R.allow_big = True
                try:
                    refparse.read(text)
                    mech = "number-over-32-bits"
                except refparse.NotSentence:
                    pass
                finally:
                    refparse.R.allow_big = False
            if mech is None:
                # ']' (resp-special) inside an atom?
                old_sp = refparse.ATOM_SPECIALS
                refparse.ATOM_SPECIALS = old_sp - {"]"}
                try:
                    refparse.read(text)
                    mech = "resp-special-in-atom"
                except refparse.NotSentence:
                    pass
                finally:
                    refparse.ATOM_SPECIALS = old_sp
            res.update(kind="accepts-non-sentence", mech=mech, detail=f"{ref_err}")
        return res
    if ast is not None and not accepted and "outside of the mail directory" in bad_text and any(name_escapes(ast.get(f)) for f in ("mailbox", "src", "dst")):
        # a grammatical name that leaves the mail directory must be refused (C09):
        # refusing it with BAD at parse time is not a parsing defect
        res.update(kind=None, refused_escaping_name=True)
        return res
    if ast is not None and not accepted:
        res.update(kind="rejects-sentence", detail="reference reads it as " + str({k: v for k, v in ast.items() if k != "message"})[:200])
        return res
    if ast is not None and accepted:
        left = cmd.input
        diffs = compare(ast, cmd, cmd._last)
        if left not in ("", "\r\n"):
            diffs.append(("input-left", "", left[:30]))
        if diffs:
            res.update(kind="meaning-differs", fields=[f for f, _, _ in diffs], detail="; ".join(f"{f}: reference {str(a)[:80]!r} real {str(b)[:80]!r}" for f, a, b in diffs[:3]))
            return res
    res["kind"] = None
    return res


def _snap(v):
    from email.message import Message

    if isinstance(v, Message):
        try:
            return ("message", v.as_bytes())
        except Exception as e:  # noqa: BLE001
            return ("message", type(e).__name__)
    if isinstance(v, (set, frozenset)):
        return sorted(str(x) for x in v)
    if isinstance(v, dict):
        return sorted((str(k), _snap(x)) for k, x in v.items())
    if isinstance(v, (list, tuple)):
        return [_snap(x) for x in v]
    if isinstance(v, (str, int, float, bool, type(None), bytes)):
        return v
    return str(v)


def byte_entry(text):
    """The front end hands commands to the parser as octets
    (parse_cmd_from_msg(bytes)); the per-user process hands them over as text,
    one character per octet.  Both entries must read the same command: same
    verdict, same fields (a literal's size counts octets in both)."""
    from asimap.parse import BadCommand, IMAPClientCommand, parse_cmd_from_msg

    try:
        data = text.encode("latin-1")
    except UnicodeEncodeError:
        return None
    out = []
    for how in ("text", "bytes"):
        try:
            if how == "text":
                c = IMAPClientCommand(text)
                c.parse()
            else:
                c = parse_cmd_from_msg(data)
            out.append(("accepted", sorted((k, _snap(v)) for k, v in vars(c).items() if k not in ("timeout_cm", "ready", "completed", "needs_continuation"))))
        except BadCommand as e:
            out.append(("bad", str(e)))
        except BaseException as e:  # noqa: B036
            out.append(("exception", type(e).__name__))
    if out[0] != out[1]:
        d0, d1 = out
        detail = f"as text: {d0[0]}, as octets: {d1[0]}"
        if d0[0] == d1[0] == "accepted":
            diff = [(a, b) for a, b in zip(d0[1], d1[1]) if a != b][:2]
            detail += f"; fields differ: {str(diff)[:300]}"
        elif d0[0] == d1[0]:
            detail += f"; {str(d0[1])[:120]!r} vs {str(d1[1])[:120]!r}"
        return detail
    return ""


async def proxy_sample(loop, ctx):
    """Rejected inputs through the real proxy: BAD and the session survives."""
    rnd = rng(ctx["seed"], "c08proxy", ctx["script"])
    cx = ctx["counts"]
    rig = await Rig(ctx["dir"] + "/mail", loop).start()
    cases = []
    try:
        s = rig.session("P")
        await s.cmd("NOOP")  # (so that nothing below is the first message of its connection: there "POP3" is the front end's marker)
        # lines that mean something to the transport between the two processes when they come first on a connection
        # (the POP3 marker) or during IDLE (DONE): in the middle of an IMAP session they are just bad commands
        transport_words = ["POP3", "DONE", "POP3", "pop3", "POP3 x", "DONE DONE", "{4}", "+"]
        for i in range(ctx.get("proxy_n", 60)):
            sent = gen_sentence(rnd)
            text, kind = mutate(rnd, sent)
            if rnd.random() < 0.1:
                text = "".join(chr(rnd.randrange(256)) for _ in range(rnd.randint(1, 40)))
            if i < len(transport_words) * 2 and i % 2 == 1:
                text = transport_words[i // 2]
                cx["proxy_transport_words"] += 1
            ev = evaluate(text)
            if ev["accepted"] or ev.get("kind") == "non-badcommand-exception":
                continue
            data = text.encode("latin-1", "replace")
            before = len(s.responses)
            s.feed(data)
            await rig.settle()
            s.pump()
            new = s.responses[before:]
            cx["proxy_rejected_inputs"] += 1
            r = await s.cmd("NOOP")
            ok = any((x.kind == "tagged" and x.status == "BAD") or (x.kind == "status" and x.status == "BAD") for x in new)
            if not ok or r.status != "OK" or s.writer.closed:
                cases.append(Case.make(f"p{ctx['script']}.{i}", VIOLATED, spec=ctx["spec"], nontrivial=True, key=common.h(text),
                                       witness={"kind": "rejected-command-not-answered-bad-or-session-lost", "detail": f"{text[:80]!r}: replies {new[:3]}, NOOP -> {r.status}, closed={s.writer.closed}", "input": text[:300]}))
                s = rig.session("P")
                await s.cmd("NOOP")
    finally:
        await rig.stop()
    if not cases:
        cases.append(Case.make(f"p{ctx['script']}", HELD, spec=ctx["spec"], nontrivial=True, key=f"proxy{ctx['script']}", sample={"proxy": "rejected inputs answered BAD, session survived"}))
    return cases


async def frontend_stage(loop, ctx):
    """Sentences with literals (sizes 0 included) go through the real
    front-end process code (server.IMAPClient.start), which re-assembles the
    command from lines and literals; what it relays must be read by the real
    parser with the meaning the reference reader gives the original."""
    from . import c19

    rnd = rng(ctx["seed"], "c08fe", ctx["script"])
    cx = ctx["counts"]
    cases = []
    for i in range(ctx.get("fe_n", 60)):
        sent = None
        for _ in range(40):
            cand = gen_sentence(rnd)
            if "{" in cand and "\r\n" in cand:
                sent = cand
                break
        if sent is None:
            continue
        try:
            ast0 = canon_flags_in_ast(refparse.read(sent))
        except (refparse.NotSentence, RecursionError):
            continue
        stream = (sent + "\r\n").encode("latin-1", "replace")
        if stream.decode("latin-1") != sent + "\r\n":
            continue
        limit = 10 * 1024 * 1024
        if rnd.random() < 0.3:
            # the sentence follows a command the front end has to refuse for its size (limit lowered from the
            # harness): the refusal must not change how the sentence after it is read
            limit = max(len(stream) + rnd.choice([0, 1, 40]), 80)
            head = b'p0 ID ("name"'
            kind = rnd.choice(["text-after-last-literal", "text-after-last-literal", "literal-over", "sum-over", "sync-literal-over"])
            if kind == "text-after-last-literal":
                n = limit - rnd.choice([0, 0, 1, 3]) - len(head) - 2 - len(b" {%d+}" % limit)
                pre = head + b" {%d+}\r\n" % n + b"v" * n + b' "version" "1.0")\r\n'
            elif kind == "literal-over":
                n = limit + rnd.choice([1, 2, 500])
                pre = head + b" {%d+}\r\n" % n + b"v" * n + b")\r\n"
            elif kind == "sum-over":
                n = limit // 2 + 1
                pre = head + b" {%d+}\r\n" % n + b"v" * n + b' "os" {%d+}\r\n' % n + b"w" * n + b")\r\n"
            else:
                pre = head + b" {%d}\r\n" % (limit + 1)
            exp = c19.reference(pre + stream, limit)
            if exp["commands"] == [stream[:-2]] and exp["bads"] == 1 and not exp["incomplete"]:
                stream = pre + stream
                cx["frontend_sentences_after_a_size_refusal"] += 1
                cx["frontend_size_refusal:" + kind] += 1
            else:
                limit = 10 * 1024 * 1024
                cx["frontend_size_refusal_preamble_not_usable"] += 1
        cuts = c19.cuts_for(rnd, stream, rnd.choice(["none", "single", "some"]))
        sub, cli, err = await c19.run_frontend(stream, cuts, limit)
        cx["frontend_sentences"] += 1
        if "{0}" in sent or "{0+}" in sent:
            cx["frontend_sentences_with_empty_literal"] += 1
        key = common.h(sent)
        sample = {"input": sent[:160], "origin": "frontend"}
        if err:
            cases.append(Case.make("fe:" + key, INCONCLUSIVE, spec=dict(ctx["spec"]), reason="front-end harness: " + err))
            continue
        frames, ferr = c19.deframe(sub)
        texts = [f.decode("latin-1") for f in frames]
        problem = None
        if ferr or len(texts) != 1:
            problem = ("frontend-relayed-other-than-one-command", f"{len(texts)} frame(s) {[t[:60] for t in texts[:3]]} {ferr or ''}; to client: {bytes(cli)[-120:]!r}")
        else:
            # what the parser makes of the relayed text must be what it makes of the
            # sentence itself (its own findings are judged by the parser shards)
            ev0 = evaluate(sent)
            ev = evaluate(texts[0])
            if (ev.get("kind"), ev.get("mech"), ev.get("fields"), ev.get("accepted")) != (ev0.get("kind"), ev0.get("mech"), ev0.get("fields"), ev0.get("accepted")):
                problem = ("relayed-command-" + str(ev.get("kind") or "read-differently"), f"relayed {texts[0][:120]!r}: {ev.get('detail')} (the sentence itself: {ev0.get('kind')})")
            else:
                try:
                    ast1 = canon_flags_in_ast(refparse.read(texts[0]))
                except (refparse.NotSentence, RecursionError) as e:
                    ast1 = None
                if ast1 != ast0:
                    problem = ("relayed-command-means-something-else", f"sent {sent[:100]!r}, relayed {texts[0][:100]!r}")
        if problem:
            cases.append(Case.make("fe:" + key, VIOLATED, spec=dict(ctx["spec"]), nontrivial=True, key=key, sample=sample,
                                   witness={"kind": problem[0], "detail": problem[1], "input": sent[:400], "origin": "frontend", "mech": None, "fields": None, "exc": None, "name": None}))
        else:
            cases.append(Case.make("fe:" + key, HELD, spec=None, nontrivial=True, key=key, sample=sample))
    return cases


def run_shard(spec):
    if spec.get("mode") == "frontend":
        return base.run_scripts(spec, frontend_stage, user_kwargs={"fe_n": spec.get("fe_n", 60)})
    if spec.get("mode") == "proxy":
        return base.run_scripts(spec, proxy_sample, user_kwargs={"proxy_n": spec.get("proxy_n", 60)})
    rnd = rng(spec["seed"], "c08", spec["shard"])
    counts = Counter()
    cases = []
    seen = set()
    n = spec["n"]
    inputs = []
    if spec["shard"] == 0:
        inputs += [(name, text, "special") for name, text in SPECIALS]
    for i in range(n):
        sent = gen_sentence(rnd)
        inputs.append((None, sent, "sentence"))
        for _ in range(2):
            m, kind = mutate(rnd, sent)
            if rnd.random() < 0.2:
                m, k2 = mutate(rnd, m)
            inputs.append((None, m, "mut:" + kind))
        if i % 10 == 0:
            inputs.append((None, "".join(chr(rnd.randrange(256)) for _ in range(rnd.randint(1, 60))), "random"))
    samples = []
    for name, text, origin in inputs:
        if text in seen:
            continue
        seen.add(text)
        if rnd.random() < 0.5:
            text_in = text + "\r\n" if origin != "special" else text
        else:
            text_in = text
        ev = evaluate(text_in)
        counts["inputs"] += 1
        counts["origin:" + origin.split(":")[0]] += 1
        counts[("sentence" if ev["sentence"] else "non-sentence") + "/" + ("accepted" if ev["accepted"] else "rejected")] += 1
        if ev.get("refused_escaping_name"):
            counts["sentence_refused_for_name_outside_mail_directory"] += 1
        if origin == "sentence" and not ev["sentence"]:
            counts["generator_vs_reference_disagree"] += 1
            cases.append(Case.make("selftest:" + common.h(text), INCONCLUSIVE, spec=dict(spec, only=text_in), reason="generated sentence rejected by the reference reader: " + text_in[:120]))
            continue
        nontriv = (ev["sentence"] and " " in text.split(" ", 2)[-1]) or (not ev["sentence"])
        cid = common.h(text_in)
        if len(samples) < 6 and ev["sentence"] and origin == "sentence":
            samples.append(text_in[:160])
        if not ev.get("kind"):
            be = byte_entry(text_in)
            if be is not None:
                counts["byte_entry_compared"] += 1
                if any(ord(ch) > 127 for ch in text_in):
                    counts["byte_entry_compared_8bit"] += 1
                    try:
                        text_in.encode("latin-1").decode("utf-8")
                        counts["byte_entry_compared_wellformed_utf8"] += 1
                    except UnicodeDecodeError:
                        pass
            if be:
                ev = dict(ev, kind="octet-entry-reads-another-command", detail=be)
        if ev.get("kind"):
            w = {"kind": ev["kind"], "detail": ev["detail"], "input": text_in[:400], "origin": origin, "mech": ev.get("mech"), "fields": ev.get("fields"), "exc": ev.get("exc"), "name": name}
            cases.append(Case.make(cid, VIOLATED, spec=dict(spec, only=text_in), nontrivial=nontriv, key=cid, witness=w, sample={"input": text_in[:160], "origin": origin}))
        else:
            cases.append(Case.make(cid, HELD, spec=None, nontrivial=nontriv, key=cid, sample={"input": text_in[:160], "origin": origin, "sentence": ev["sentence"]}))
    return {"cases": cases, "counts": dict(counts)}


def plan(tier, seed, scale):
    n = int((900 if tier == "quick" else 60000) * scale)
    shards = 14
    specs = [{"prop": PROP, "tier": tier, "seed": seed, "shard": s, "n": n, "scripts": [s]} for s in range(shards)]
    for s in range(2 if tier == "quick" else 8):
        specs.append({"prop": PROP, "tier": tier, "seed": seed, "shard": 100 + s, "mode": "proxy", "scripts": [100 + s], "proxy_n": 80 if tier == "quick" else 400})
    for s in range(2 if tier == "quick" else 8):
        specs.append({"prop": PROP, "tier": tier, "seed": seed, "shard": 200 + s, "mode": "frontend", "scripts": [200 + s], "fe_n": 120 if tier == "quick" else 1500})
    return specs


def replay_specs(rp):
    sp = dict(rp["case"]["spec"])
    return [sp]


def classify(w):
    k = w.get("kind")
    if k == "accepts-non-sentence" and w.get("mech") == "leftover-input":
        return "C08-no-end-of-input-check"
    if k == "meaning-differs" and w.get("fields") and all(f == "input-left" for f in w["fields"]):
        return "C08-no-end-of-input-check"
    if k == "accepts-non-sentence" and w.get("mech") == "zero-sequence-number":
        return "C08-zero-sequence-number-accepted"
    if k == "meaning-differs" and w.get("fields") and set(w["fields"]) <= {"date_time", "mailbox:normpath"} and "date_time" in w["fields"] and re.search(r"-0\d\d\d \d\d:", w.get("input") or ""):
        return ["C08-years-below-1000-shifted"] + (["C08-normpath-rewrites-name"] if "mailbox:normpath" in w["fields"] else [])
    if k == "accepts-non-sentence" and w.get("mech") == "number-over-32-bits":
        return "C08-number-over-32-bits-accepted"
    if k == "accepts-non-sentence" and w.get("mech") == "resp-special-in-atom":
        return "C08-resp-special-accepted-in-atoms"
    if k == "meaning-differs" and w.get("fields") and all(f.endswith(":normpath") for f in w["fields"]):
        return "C08-normpath-rewrites-name"
    return None


def finish(tier, seed, cases, results, errors, wall):
    counts = common.merge_counts(results)
    # HELD cases carry no spec (they are millions in the thorough tier); keep evidence small
    return common.finish(
        PROP, tier, seed, LEVEL, cases, wall=wall, errors=errors, classify=classify,
        rule=("one case = one input string given to the real IMAPClientCommand.parse() and to the reference RFC 3501 reader: grammar-directed sentences "
              "(every command, UID forms, nested search keys, sections/partials, LIST-EXTENDED, atom/quoted/literal/literal+ encodings), their truncations, "
              "single-character mutations, token duplications, trailing garbage, case flips, control characters, raw random bytes and a dozen adversarial "
              "specials (deep nesting, long sets, regex bait); non-trivial = a sentence with at least one argument, or a mutation the reference rejects; "
              "distinct = input text"),
        monitor_counts=dict(counts),
        floors={"inputs": 5000, "sentence/accepted": 1000, "non-sentence/rejected": 1000, "proxy_rejected_inputs": 40},
        assumptions=["the reference reader (refparse.py) is hand-written from the RFC 3501 ABNF and self-tested against the sentence generator",
                     "system flags are compared in canonical spelling; search strings and header names case-insensitively; ('and',[x]) == x"],
    )
