"""C19 -- the front-end relays exactly the commands the byte stream denotes.

Oracle: a reference tokenizer of the client byte stream (DESIGN appendix D)
yields the expected command list, the number of '+' continuations and the
refusals; the real server.IMAPClient.start() is run on the same stream under
many segmentations with recording writers in place of the client socket and
of the connection to the user process; the frames it writes are de-framed by
the real IMAPClientProxy.run(); response streams are pushed through the real
msgs_to_client()."""
import asyncio
import re

from .. import common
from ..common import Case, HELD, INCONCLUSIVE, VIOLATED
from ..gen import rng
from ..rig import MemWriter
from . import base

PROP = "C19"
LEVEL = "exploration"
JAIL = True
LIT_RE = re.compile(rb"\{(\d+)(\+)?\}$")


# -------------------------------------------------- reference tokenizer
def reference(stream, limit):
    """What the byte stream denotes (DESIGN appendix D).  Returns
    dict(commands=[bytes], plus=int, bads=int, incomplete=bool).

    A client that uses a synchronising literal waits for '+': when the
    server refuses (the literal or the command is over the limit) it sends
    nothing more of that command.  Non-synchronising literals are sent
    regardless and have to be skipped by the server."""
    pos = 0
    cmds = []
    plus = 0
    bads = 0
    n = len(stream)

    class Short(Exception):
        pass

    def line():
        nonlocal pos
        e = stream.find(b"\r\n", pos)
        if e < 0:
            raise Short()
        ln = stream[pos:e]
        pos = e + 2
        return ln

    def take(k):
        nonlocal pos
        if pos + k > n:
            raise Short()
        v = stream[pos : pos + k]
        pos += k
        return v

    try:
        while pos < n:
            cur = line()
            acc = cur
            refused = False
            while True:
                m = LIT_RE.search(cur)
                if not m:
                    break
                ln = int(m.group(1)) if len(m.group(1)) <= 18 else 10 ** 18  # (a count of thousands of digits is just 'too big')
                sync = not m.group(2)
                if refused:
                    if sync:
                        break
                    take(ln)
                    cur = line()
                    continue
                if ln > limit:
                    bads += 1
                    refused = True
                    if sync:
                        break
                    take(ln)
                    cur = line()
                    continue
                if sync:
                    plus += 1
                lit = take(ln)
                acc = acc + b"\r\n" + lit
                if len(acc) > limit:
                    bads += 1
                    refused = True
                    cur = line()
                    continue
                cur = line()
                acc += cur
            if refused:
                continue
            if len(acc) > limit:
                bads += 1
                continue
            if acc == b"":
                bads += 1  # "* BAD We do not accept empty messages."
                continue
            cmds.append(acc)
    except Short:
        return {"commands": cmds, "plus": plus, "bads": bads, "incomplete": True}
    return {"commands": cmds, "plus": plus, "bads": bads, "incomplete": False}


def deframe(buf):
    out = []
    pos = 0
    while pos < len(buf):
        m = re.compile(rb"\{(\d+)\}\n").match(buf, pos)
        if not m:
            return out, f"bad frame at {pos}: {buf[pos:pos + 30]!r}"
        n = int(m.group(1))
        out.append(bytes(buf[m.end() : m.end() + n]))
        pos = m.end() + n
    return out, None


class FakeServer:
    debug = False
    log_config = None
    trace = False
    trace_dir = None


async def run_frontend(stream, cuts, limit):
    import asimap.server as S
    from asimap.client import ClientState

    S.MAX_INPUT_SIZE = limit
    loop = asyncio.get_running_loop()
    reader = asyncio.StreamReader(limit=65536)
    cw = MemWriter("client", loop)
    c = S.IMAPClient(FakeServer(), "n", "1.2.3.4", 5, reader, cw)
    sw = MemWriter("sub", loop)
    c.subprocess_intf.writer = sw
    c.subprocess_intf.client_handler.state = ClientState.AUTHENTICATED
    task = asyncio.create_task(c.start())
    pos = 0
    for cut in cuts:
        reader.feed_data(stream[pos:cut])
        pos = cut
        for _ in range(4):
            await asyncio.sleep(0)
    reader.feed_data(stream[pos:])
    for _ in range(30):
        await asyncio.sleep(0)
    reader.feed_eof()
    try:
        await asyncio.wait_for(task, 50)
    except asyncio.TimeoutError:
        task.cancel()
        return None, None, "front-end task did not finish"
    return bytes(sw.buf), bytes(cw.buf), None


async def run_proxy_deframe(framed, rnd):
    """Feed the framed stream, in random chunks, to the real
    IMAPClientProxy.run() and record what it hands to the command parser."""
    import asimap.user_server as US
    from asimap.parse import BadCommand

    seen = []

    class Rec:
        def __init__(self, text):
            seen.append(text)
            self.tag = None

        def parse(self):
            raise BadCommand("recorded")

    class Srv:
        clients = {}
        commands_in_progress = 0
        active_commands = []
        active_mailboxes = {}
        num_rcvd_commands = {}

    loop = asyncio.get_running_loop()
    reader = asyncio.StreamReader()
    w = MemWriter("p", loop)
    orig = US.IMAPClientCommand
    US.IMAPClientCommand = Rec
    try:
        proxy = US.IMAPClientProxy(Srv(), "c", 1, "127.0.0.1", 1, reader, w)
        t = asyncio.create_task(proxy.run())
        pos = 0
        while pos < len(framed):
            k = rnd.randint(1, 40)
            reader.feed_data(framed[pos : pos + k])
            pos += k
            await asyncio.sleep(0)
        for _ in range(10):
            await asyncio.sleep(0)
        reader.feed_eof()
        await asyncio.wait_for(t, 50)
    finally:
        US.IMAPClientCommand = orig
    return seen


async def run_relay(stream, rnd, pop3=False):
    import asimap.pop3_server as P
    import asimap.server as S

    loop = asyncio.get_running_loop()
    cw = MemWriter("client", loop)
    if pop3:
        c = P.POP3Client(FakeServer(), "p", "1.2.3.4", 6, asyncio.StreamReader(), cw)
        si = c.subprocess_intf
        si.reader = asyncio.StreamReader()  # open_connection() default limit
    else:
        c = S.IMAPClient(FakeServer(), "n", "1.2.3.4", 5, asyncio.StreamReader(), cw)
        si = c.subprocess_intf
        si.reader = asyncio.StreamReader(limit=131_072)
    si.writer = MemWriter("sub", loop)
    t = asyncio.create_task(si.msgs_to_client())
    pos = 0
    while pos < len(stream):
        k = rnd.choice([1, 7, 100, 4096, 70000, 200000])
        si.reader.feed_data(stream[pos : pos + k])
        pos += k
        for _ in range(3):
            await asyncio.sleep(0)
    for _ in range(20):
        await asyncio.sleep(0)
    closed_early = cw.closed
    si.reader.feed_eof()
    await asyncio.wait_for(t, 50)
    return bytes(cw.buf), closed_early


# --------------------------------------------------------- generators
def gen_stream(rnd, limit, big=False):
    """A client byte stream.  The client modelled here pipelines freely but
    honours synchronising literals: once the server has refused the command
    (known to the generator by the same size accounting) it stops at the next
    synchronising literal header."""
    cmds = []
    n = rnd.randint(1, 8)
    classes = set()
    for i in range(n):
        r = rnd.random()
        tag = f"t{i}".encode()
        if r < 0.08:
            cmds.append(b"\r\n")
            classes.add("empty-line")
            continue
        line = tag + b" " + rnd.choice([b"NOOP", b"LOGIN user", b"APPEND inbox (\\Seen)", b"SELECT", b"SEARCH TEXT", b"ID (\"a\"", b"CAPABILITY   ", b"NOOP\t"])
        nl = rnd.choice([0, 0, 1, 1, 2, 3])
        if line.endswith((b" ", b"\t")):
            classes.add("trailing-space")
        out = line
        size = len(line)
        refused = False
        ended = False
        for j in range(nl):
            sz = rnd.choice([0, 1, 5, 30, limit - 1, limit, limit + 1, limit * 3] if rnd.random() < 0.35 else [0, 1, 2, 5, 17, 40])
            sync = rnd.random() < 0.5
            edge = None
            if not refused and rnd.random() < 0.12:
                # the command is at or just under the limit after this literal: whether it is over is decided by the text after it
                edge = rnd.choice([0, 0, 1, 2, 5])
                sz = limit - edge - size - 2 - len(b" {%d%s}" % (limit, b"" if sync else b"+"))
                for _ in range(3):
                    sz = limit - edge - size - 2 - len(b" {%d%s}" % (max(sz, 0), b"" if sync else b"+"))
                if sz < 0:
                    edge, sz = None, 1
                else:
                    classes.add("at-limit-after-literal")
            body_kind = rnd.choice(["text", "cmdlike", "crlf", "brace", "brace-end"])
            if body_kind == "text":
                lit = b"x" * sz
            elif body_kind == "cmdlike":
                lit = (b"L1 FAKE\r\nL2 NOOP\r\n" * (sz // 18 + 1))[:sz]
            elif body_kind == "brace-end":
                # the literal's last octets look like a literal declaration themselves
                tail_ = rnd.choice([b" {3}", b"{2+}", b" {0}", b"x {10}"])
                lit = (b"y" * max(0, sz - len(tail_)) + tail_)[-sz:] if sz else b""
            elif body_kind == "crlf":
                lit = (b"\r\n" * (sz // 2 + 1))[:sz]
            else:
                lit = (b"a {3}\r\nabc {2+}\r\n" * (sz // 16 + 1))[:sz]
            hdr = b" {%d%s}" % (sz, b"" if sync else b"+")
            if sync and rnd.random() < 0.04:
                # an absurd size: thousands of digits (a synchronising literal the client will never send)
                sz = 10 ** 18
                hdr = b" {" + rnd.choice([b"1", b"9", b"12345"]) * rnd.choice([900, 4301, 5000]) + b"}"
                classes.add("absurd-literal-size")
            out += hdr
            size += len(hdr)
            classes.add("sync-literal" if sync else "nonsync-literal")
            if sz > limit:
                classes.add("over-limit")
            if sync and (refused or sz > limit):
                # the client waits for '+', gets BAD (or nothing): it gives up
                ended = True
                break
            if sz > limit:
                refused = True
            out += b"\r\n" + lit
            size += sz + 2
            if size > limit:
                refused = True
                classes.add("over-limit")
            tail = rnd.choice([b" more", b" (x y)", b"", b""])
            if edge is not None:
                tail = rnd.choice([b"", b" ", b" m", b" more", b" (x y) \"version\" \"1.0\")"])
                if size + len(tail) > limit:
                    classes.add("over-limit-by-text-after-last-literal")
            out += tail
            size += len(tail)
        cmds.append(out + b"\r\n")
    return b"".join(cmds), classes


def cuts_for(rnd, stream, mode):
    n = len(stream)
    if mode == "none":
        return []
    if mode == "every":
        return list(range(1, n))
    if mode == "single":
        return [rnd.randint(1, max(1, n - 1))]
    k = rnd.randint(1, min(12, max(1, n - 1)))
    return sorted(rnd.sample(range(1, n), min(k, n - 1))) if n > 1 else []


def check_one(stream, cuts, limit, sub, cli, err, rnd, counts):
    exp = reference(stream, limit)
    probs = []
    if err:
        return [("front-end-hung", err)], exp
    got, ferr = deframe(sub)
    if ferr:
        probs.append(("malformed-frame", ferr))
    counts["commands_compared"] += max(len(got), len(exp["commands"]))
    if got != exp["commands"]:
        # first difference
        i = next((k for k in range(min(len(got), len(exp["commands"]))) if got[k] != exp["commands"][k]), min(len(got), len(exp["commands"])))
        g = got[i][:60] if i < len(got) else None
        w = exp["commands"][i][:60] if i < len(exp["commands"]) else None
        kind = "relayed-commands-differ"
        if g is not None and w is not None and g == w.rstrip() and g != w:
            kind = "trailing-whitespace-stripped"
        elif len(got) < len(exp["commands"]):
            kind = "command-dropped" if (g is None or g in exp["commands"][i + 1 :] or True) else kind
        elif len(got) > len(exp["commands"]):
            kind = "extra-command-relayed"
        probs.append((kind, f"#{i}: relayed {g!r} expected {w!r}; relayed {len(got)} expected {len(exp['commands'])}"))
    nplus = cli.count(b"+ Ready for more input\r\n")
    counts["continuations_checked"] += 1
    if nplus != exp["plus"] and not exp["incomplete"]:
        probs.append(("continuation-count-differs", f"sent {nplus} '+', expected {exp['plus']}"))
    nbad = len(re.findall(rb"\* BAD ", cli))
    if nbad != exp["bads"] and not exp["incomplete"]:
        probs.append(("bad-count-differs", f"sent {nbad} BAD, expected {exp['bads']}"))
    return probs, exp


async def script(loop, ctx):
    k = ctx["script"]
    rnd = rng(ctx["seed"], "c19", k)
    counts = ctx["counts"]
    cases = []
    npairs = ctx.get("pairs", 60)
    limit = 256 if k % 5 else 4096
    real_limit_case = (k % 9 == 0)
    for i in range(npairs):
        stream, classes = gen_stream(rnd, limit)
        mode = rnd.choice(["none", "random", "random", "single", "every" if len(stream) < 120 else "random"])
        cuts = cuts_for(rnd, stream, mode)
        sub, cli, err = await run_frontend(stream, cuts, limit)
        counts["pairs"] += 1
        probs, exp = check_one(stream, cuts, limit, sub or b"", cli or b"", err, rnd, counts)
        # de-framing side
        if sub and not probs and i % 4 == 0:
            seen = await run_proxy_deframe(sub, rnd)
            counts["deframe_runs"] += 1
            want = [c.decode("latin-1") for c in exp["commands"]]
            if seen != want:
                probs.append(("proxy-deframes-differently", f"proxy saw {len(seen)} commands, expected {len(want)}"))
        inside = any(stream[c - 1 : c + 1] == b"\r\n" or re.search(rb"\{\d*\+?\}?$", stream[max(0, c - 8) : c]) for c in cuts)
        nontriv = bool(classes & {"sync-literal", "nonsync-literal"}) and (inside or mode == "every")
        cid = f"s{k}.{i}"
        key = common.h([stream.hex()[:400], cuts[:20]])
        sample = {"stream": stream[:160].decode("latin-1"), "cuts": cuts[:12], "limit": limit, "expected_commands": len(exp["commands"]), "classes": sorted(classes)}
        if probs:
            cases.append(Case.make(cid, VIOLATED, spec=ctx["spec"], nontrivial=nontriv, key=key, sample=sample,
                                   witness={"kind": probs[0][0], "detail": probs[0][1], "all": [p[0] for p in probs], "stream": stream[:600].decode("latin-1"), "cuts": cuts[:40], "limit": limit,
                                            "classes": sorted(classes)}))
        else:
            cases.append(Case.make(cid, HELD, spec=ctx["spec"], nontrivial=nontriv, key=key, sample=sample))
    # relay direction
    for j in range(ctx.get("relays", 4)):
        parts = []
        for _ in range(rnd.randint(1, 6)):
            run = rnd.choice([1, 100, 5000, 131_070, 131_073, 300_000, 1_000_000] if ctx["tier"] == "thorough" or j == 0 else [1, 100, 5000, 131_073, 200_000])
            payload = bytes(rnd.choice(b"abcxyz0123 ") for _ in range(min(run, 50))) * (run // 50 + 1)
            payload = payload[:run]
            parts.append(b"* 1 FETCH (BODY[] {%d}\r\n" % len(payload) + payload + b")\r\n")
            parts.append(b"a%d OK done\r\n" % j)
        stream = b"".join(parts)
        out, closed = await run_relay(stream, rnd, pop3=(j % 2 == 1))
        counts["relay_streams"] += 1
        counts["relay_pop3" if j % 2 else "relay_imap"] += 1
        counts["relay_octets"] += len(stream)
        longest = max(len(x) for x in stream.split(b"\r\n"))
        cid = f"s{k}.relay{j}"
        sample = {"relay_octets": len(stream), "longest_crlf_free_run": longest}
        if out != stream:
            i = next((q for q in range(min(len(out), len(stream))) if out[q] != stream[q]), min(len(out), len(stream)))
            cases.append(Case.make(cid, VIOLATED, spec=ctx["spec"], nontrivial=True, key=common.h([k, j, "relay"]), sample=sample,
                                   witness={"kind": "relay-not-identity", "detail": f"client got {len(out)} of {len(stream)} octets (first difference at {i}); longest CRLF-free run {longest}; connection closed early={closed}",
                                            "longest_run": longest}))
        else:
            cases.append(Case.make(cid, HELD, spec=ctx["spec"], nontrivial=longest > 1000, key=common.h([k, j, "relay", len(stream)]), sample=sample))
    return cases


def plan(tier, seed, scale):
    return base.plan_scripts(PROP, tier, seed, scale, quick=48, thorough=2400, extra={"pairs": 64})


def run_shard(spec):
    import asimap.server as S

    orig = S.MAX_INPUT_SIZE
    try:
        return base.run_scripts(spec, script, user_kwargs={"pairs": spec.get("pairs", 64)})
    finally:
        S.MAX_INPUT_SIZE = orig


def replay_specs(rp):
    return base.replay_specs_from(rp)


def classify(w):
    if w.get("kind") == "trailing-whitespace-stripped" and w.get("all") == ["trailing-whitespace-stripped"]:
        return "C19-trailing-whitespace-stripped"
    return None


def finish(tier, seed, cases, results, errors, wall):
    counts = common.merge_counts(results)
    return common.finish(
        PROP, tier, seed, LEVEL, cases, wall=wall, errors=errors, classify=classify,
        rule=("one case = one (client byte stream, segmentation) pair run through the real server.IMAPClient.start(): streams of 1-8 commands with 0-3 "
              "synchronising / non-synchronising literals of sizes 0,1,..,limit-1,limit,limit+1,3*limit (MAX_INPUT_SIZE lowered to 256 or 4096), literal text "
              "that looks like commands or literal headers, empty lines; segment boundaries none / single / random / at every byte offset for short streams; "
              "plus response streams with CRLF-free runs up to 1 MiB through the real msgs_to_client(); non-trivial = a literal and a segment boundary inside "
              "a CRLF or a literal header (or every-offset segmentation); distinct = stream + cuts"),
        monitor_counts=dict(counts),
        floors={"pairs": 1000, "commands_compared": 2000, "continuations_checked": 1000, "relay_streams": 20, "deframe_runs": 100},
        assumptions=["asimap.server.MAX_INPUT_SIZE lowered to 256/4096 from the harness", "stream readers built with the production limits (64 KiB client side, 128 KiB subprocess side)"],
    )
