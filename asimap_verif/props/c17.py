"""C17 -- the mailbox list follows CREATE/DELETE/RENAME/SUBSCRIBE history.

Oracle: the namespace part of the reference model (history.World) compared,
after every command, with LIST / LSUB (plain and LIST-EXTENDED), with an
independent implementation of the '*' / '%' wildcards, with the directory
tree under the mail root, and (through the observer) with the messages, UIDs
and flags of renamed subtrees."""
import os
import re

from .. import common
from ..gen import rng
from ..history import Stop, canon_name, wire_name
from .hist_base import HistProp, module_api

PROP = "C17"
NAMES = ["a", "b", "a b", "a.b", "a+b", "a(b", "a_b", "axb", "a%b", "[x]", "c"]
SPECIAL = {"Archive", "Deleted Messages", "Drafts", "Junk", "Sent Messages"}


def all_names(rnd, depth=3):
    out = list(NAMES)
    for p in ("a", "b", "a_b", "axb", "a b", "c"):
        for q in ("b", "c", "x y", "a_b", "sub"):
            out.append(f"{p}/{q}")
            if rnd is None or True:
                out.append(f"{p}/{q}/deep")
    # MH keeps messages as files named by numbers: components that are all
    # digits collide with message keys of the parent folder
    out += ["a/7", "c/2024", "b/12/deep", "a_b/0", "7up"]
    return out


def imap_match(pattern, name):
    rx = ""
    for ch in pattern:
        if ch == "*":
            rx += ".*"
        elif ch == "%":
            rx += "[^/]*"
        else:
            rx += re.escape(ch)
    flags = re.I if name == "INBOX" else 0
    return re.fullmatch(rx, name, flags) is not None


def disk_tree(root, msgs=False):
    out = set()
    for dirpath, dirnames, _ in os.walk(root):
        for d in dirnames:
            p = os.path.relpath(os.path.join(dirpath, d), root)
            out.add(p)
    # symlinks left behind count as well, and so do the message files
    for dirpath, dirnames, filenames in os.walk(root):
        for f in filenames:
            fp = os.path.join(dirpath, f)
            if os.path.islink(fp):
                out.add("LINK:" + os.path.relpath(fp, root))
            elif msgs and f.isdigit():
                out.add("MSG:" + os.path.relpath(fp, root))
    return out


def dec(v):
    return bytes(v).decode("latin-1") if isinstance(v, (bytes, bytearray)) else str(v)


async def run_list(w, ss, text):
    r = await w._cmd(ss, text)
    return r


def parse_list(r, name="LIST"):
    rows = []
    for x in r.untagged(name):
        rows.append((canon_name(dec(x.data["name"])), set(x.data["attrs"]), x.data.get("ext")))
    return rows


async def check_namespace(w, ss, rnd, where, deep=True):
    """LIST / LSUB / patterns / attributes / disk against the model."""
    st = w.stats
    model = {n: b for n, b in w.boxes.items()}
    r = await run_list(w, ss, 'LIST "" *')
    if not r.ok:
        w.viol(["C17", "C06"], "list-failed", r.brief())
    rows = parse_list(r)
    names = [n for n, _, _ in rows]
    st["list_compares"] += 1
    dups = sorted({n for n in names if names.count(n) > 1})
    if dups:
        w.viol(["C17"], "listed-more-than-once", f"{dups} ({where})")
    if set(names) != set(model):
        w.viol(["C17"], "list-differs-from-model", f"{where}: missing {sorted(set(model) - set(names))} extra {sorted(set(names) - set(model))}",
               missing=sorted(set(model) - set(names)), extra=sorted(set(names) - set(model)), subscribed=sorted(n for n, b in model.items() if b.subscribed), noselect_extra=[n for n, a, _ in rows if n not in model and "\\Noselect" in a], deleted_subscribed=sorted(w.subscribed_leaf_deleted))
    for n, attrs, _ in rows:
        b = model[n]
        st["attr_compares"] += 1
        if ("\\Noselect" in attrs) != bool(b.noselect):
            w.viol(["C17"], "noselect-attribute-wrong", f"{where}: {n}: listed {sorted(attrs)}, model noselect={b.noselect}", name=n, subscribed=b.subscribed)
        hc = w.has_inferiors(n)
        if ("\\HasChildren" in attrs) != hc or ("\\HasNoChildren" in attrs) == hc:
            w.viol(["C17"], "children-attribute-wrong", f"{where}: {n}: listed {sorted(attrs)}, model has inferiors={hc}", pattern="*")
    r = await run_list(w, ss, 'LSUB "" *')
    subs = {n for n, _, _ in parse_list(r, "LSUB")}
    want = {n for n, b in model.items() if b.subscribed}
    st["lsub_compares"] += 1
    if not r.ok or subs != want:
        w.viol(["C17"], "lsub-differs-from-model", f"{where}: LSUB {sorted(subs)} model {sorted(want)}")
    if not deep:
        return
    # generated (reference, pattern) pairs
    for _ in range(4):
        ref = rnd.choice(["", "", "a/", "b/", "a_b/", "a b/", "axb/", "c/", "a/b/"])
        pat = rnd.choice(["*", "%", "%/%", "a*", "a%", "*b", "%/b", "INBOX", "inbox", "InBoX", "I*", "a_b", "a_b/%", "a.b", "a+b", "a(b", "[x]", "*/deep", "%/%/%", "a*/%", "x*", "b", "sub", "*y", "c/*"])
        full = ref + pat
        cmdname = rnd.choice(["LIST", "LIST", "LSUB"])
        r = await run_list(w, ss, f"{cmdname} {wire_name(ref) if ref else chr(34) * 2} {wire_name(pat) if not re.search('[*%]', pat) else (pat if re.fullmatch(r'[A-Za-z0-9_./+*%-]+', pat) else chr(34) + pat + chr(34))}")
        if not r.ok:
            w.viol(["C17", "C06"], "list-pattern-failed", r.brief())
        got_rows = parse_list(r, cmdname)
        got = [n for n, _, _ in got_rows]
        pool = model if cmdname == "LIST" else {n: b for n, b in model.items() if b.subscribed}
        want_names = {n for n in pool if imap_match(full, n)}
        st["pattern_compares"] += 1
        if len(got) != len(set(got)):
            w.viol(["C17"], "listed-more-than-once", f"{cmdname} {ref!r} {pat!r}: {got}")
        if set(got) != want_names:
            extra_ok = set()
            if cmdname == "LSUB" and "%" in pat:
                extra_ok = {n for n in set(got) - want_names}  # RFC 3501 6.3.9 allows \Noselect parents
                extra_ok = {n for n in extra_ok if any(x.startswith(n + "/") for x in pool)}
            if set(got) - extra_ok != want_names:
                w.viol(["C17"], "pattern-result-differs", f"{where}: {cmdname} {ref!r} {pat!r}: got {sorted(got)} want {sorted(want_names)}", ref=ref, pattern=pat, cmd=cmdname,
                       missing=sorted(want_names - set(got)), extra=sorted(set(got) - want_names))
        if cmdname == "LIST":
            for n, attrs, _ in got_rows:
                if n in model:
                    hc = w.has_inferiors(n)
                    if ("\\HasChildren" in attrs) != hc:
                        w.viol(["C17"], "children-attribute-wrong", f"{where}: LIST {ref!r} {pat!r}: {n}: listed {sorted(attrs)}, model has inferiors={hc}", pattern=pat)
    # LIST-EXTENDED
    k = rnd.random()
    if k < 0.35:
        r = await run_list(w, ss, 'LIST (SUBSCRIBED) "" *')
        rows2 = parse_list(r)
        st["extended_compares"] += 1
        if not r.ok or {n for n, _, _ in rows2} != want:
            w.viol(["C17"], "list-subscribed-differs", f"{where}: {sorted(n for n, _, _ in rows2)} vs {sorted(want)}")
        for n, attrs, _ in rows2:
            if "\\Subscribed" not in attrs:
                w.viol(["C17"], "subscribed-attribute-missing", f"{n}: {sorted(attrs)}")
    elif k < 0.6:
        r = await run_list(w, ss, 'LIST "" * RETURN (SUBSCRIBED CHILDREN)')
        st["extended_compares"] += 1
        marked = {n for n, a, _ in parse_list(r) if "\\Subscribed" in a}
        if not r.ok or marked != want:
            w.viol(["C17"], "return-subscribed-differs", f"{where}: {sorted(marked)} vs {sorted(want)}")
    elif k < 0.8:
        pats = rnd.sample(["a*", "b*", "INBOX", "c/%", "%"], 2)
        r = await run_list(w, ss, f'LIST "" ({pats[0]} {pats[1]})')
        st["extended_compares"] += 1
        got = [n for n, _, _ in parse_list(r)]
        wantm = {n for n in model if imap_match(pats[0], n) or imap_match(pats[1], n)}
        if not r.ok or set(got) != wantm or len(got) != len(set(got)):
            w.viol(["C17"], "multi-pattern-differs", f"{where}: LIST ({pats}): got {sorted(got)} want {sorted(wantm)}", patterns=pats, missing=sorted(wantm - set(got)), extra=sorted(set(got) - wantm))
    else:
        r = await run_list(w, ss, 'LIST "" * RETURN (STATUS (MESSAGES UIDVALIDITY))')
        st["extended_compares"] += 1
        for x in r.untagged("STATUS"):
            n = canon_name(dec(x.data["name"]))
            b = model.get(n)
            if b is None or b.noselect:
                w.viol(["C17"], "list-status-for-nonexistent", f"{n}")
            elif x.data["atts"].get("MESSAGES") != len(b.msgs):
                w.viol(["C17", "C05"], "list-status-count-differs", f"{n}: {x.data['atts']} model {len(b.msgs)}")
    # disk
    tree = disk_tree(str(w.rig.maildir))
    want_dirs = {("inbox" if n == "INBOX" else n) for n in model}
    st["disk_tree_compares"] += 1
    if tree != want_dirs:
        w.viol(["C17"], "directory-tree-differs-from-model", f"{where}: extra on disk {sorted(tree - want_dirs)} missing {sorted(want_dirs - tree)}", extra=sorted(tree - want_dirs), missing=sorted(want_dirs - tree))


async def ns_step(hp, w, rnd, ss, pool):
    """One namespace command, then the full comparison; a refused command
    must leave LIST/LSUB output and the directory tree unchanged."""
    existing = [n for n in w.boxes if n not in SPECIAL]
    live = [n for n in existing if not w.boxes[n].noselect]
    op = rnd.choice(["create", "create", "create", "delete", "delete", "rename", "rename", "subscribe", "unsubscribe", "bad", "append", "restart", "special"])
    before_tree = disk_tree(str(w.rig.maildir), msgs=True)
    r = None
    if op == "create":
        nm = rnd.choice(pool + existing[:3])
        r = await w.op_create(ss, nm)
    elif op == "delete":
        nm = rnd.choice(existing + [rnd.choice(pool)] + ["INBOX"])
        if w.boxes.get(nm) is not None and w.boxes[nm].subscribed and not w.has_inferiors(nm):
            w.stats["delete_subscribed_leaf"] += 1
        r = await w.op_delete(ss, nm)
    elif op == "rename":
        src = rnd.choice(live + [rnd.choice(pool)] + (["INBOX"] if rnd.random() < 0.15 else []))
        dst = rnd.choice(pool + existing[:2])
        if dst.startswith(src + "/") and src in w.boxes:
            rr = await w._cmd(ss, f"RENAME {wire_name(src)} {wire_name(dst)}")
            if rr.ok:
                w.viol(["C17"], "rename-into-own-inferior-accepted", f"{src} -> {dst}")
            r = rr
        else:
            r = await w.op_rename(ss, src, dst)
            if r.ok and w.has_inferiors(dst):
                w.stats["subtree_renames"] += 1
    elif op in ("subscribe", "unsubscribe"):
        nm = rnd.choice(existing + ["INBOX"] + [rnd.choice(pool)])
        r = await w.op_subscribe(ss, nm, on=(op == "subscribe"))
    elif op == "append" and live:
        # also into \\Noselect placeholders: must be refused, nothing may appear in them
        placeholders = [n for n in existing if w.boxes[n].noselect]
        target = rnd.choice(placeholders) if placeholders and rnd.random() < 0.4 else rnd.choice(live + ["INBOX"])
        await w.op_append(ss, target, flags=rnd.choice([None, ["\\Seen"], ["kw1", "\\Flagged"]]))
        if placeholders and rnd.random() < 0.5:
            if ss.selected != "INBOX" or ss.view is None:
                await w.op_select(ss, "INBOX")
            if ss.nview():
                await w.op_copy(ss, [1], rnd.choice(placeholders))
    elif op == "special":
        # the mailboxes the server creates by itself when they are missing (SPECIAL-USE names): deleted while they have an
        # inferior they stay as placeholders -- which a restart must not bring back to life --, deleted as leaves they are gone
        # until the next start creates them afresh
        sp = rnd.choice(sorted(SPECIAL))
        b = w.boxes.get(sp)
        if b is not None and not b.noselect and rnd.random() < 0.6:
            if not w.has_inferiors(sp):
                await w.op_create(ss, sp + "/" + rnd.choice(["sub", "x y", "2024"]))
            r = await w.op_delete(ss, sp)
            w.stats["special_use_deleted_with_inferior"] += 1
        elif b is not None and not b.noselect and not b.subscribed:
            r = await w.op_delete(ss, sp)
            w.stats["special_use_leaf_deleted"] += 1
        elif b is None or b.noselect:
            r = await w.op_create(ss, sp)
    elif op == "restart":
        await w.restart()
        from ..history import MBox

        for sp in sorted(SPECIAL):
            if sp not in w.boxes:
                w.boxes[sp] = MBox(sp)  # created afresh by the starting server
                w.stats["special_use_recreated_at_start"] += 1
        ss = w.session()
    elif op == "bad":
        txt = rnd.choice(["CREATE INBOX", "DELETE INBOX", 'DELETE "INBOX"', "DELETE InBoX", "RENAME nosuch other", "DELETE nosuch", "CREATE 123", 'CREATE ""', 'RENAME a ""', "CREATE a/", "RENAME INBOX INBOX"])
        if rnd.random() < 0.4:
            # other spellings that the server's own name normalisation turns into INBOX
            sp = rnd.choice(["INBOX/", "/INBOX", "./Inbox", "x/../INBOX", "inbox/.", "INBOX//", '"/inbox/"', "./x/../InBox"])
            txt = rnd.choice([f"DELETE {sp}", f"DELETE {sp}", f"CREATE {sp}", f"RENAME {wire_name(rnd.choice(live))} {sp}" if live else f"DELETE {sp}"])
            w.stats["inbox_spelling_cmds"] += 1
        r = await w._cmd(ss, txt)
        if r.ok and txt.split()[0] in ("DELETE", "CREATE") and "INBOX" in txt.upper() or (r.ok and "nosuch" in txt) or (r.ok and txt.startswith("RENAME") and "INBOX" in txt.upper().split()[-1] and txt != "RENAME INBOX INBOX" and "nosuch" not in txt):
            w.viol(["C17"], "invalid-namespace-command-accepted", txt)
        if r.ok and txt == "CREATE a/":
            if "a" not in w.boxes:
                from ..history import MBox

                w.boxes["a"] = MBox("a")
            elif w.boxes["a"].noselect:
                w.boxes["a"].noselect = False
                w.boxes["a"].msgs = []
        elif r.ok and txt == "CREATE 123":
            from ..history import MBox

            w.boxes["123"] = MBox("123")
    if r is not None and not r.ok:
        w.stats["refused_namespace_cmds"] += 1
        after_tree = disk_tree(str(w.rig.maildir), msgs=True)
        if after_tree != before_tree:
            w.viol(["C17"], "refused-command-changed-the-tree", f"{w.steps[-1]}: +{sorted(after_tree - before_tree)} -{sorted(before_tree - after_tree)}")
        if w.obs.writer.closed or ss.s.writer.closed:
            w.viol(["C06", "C17"], "connection-lost-on-refused-command", w.steps[-1])
    return ss


class C17(HistProp):
    prop = PROP
    pack_limits = [100]

    async def script(self, loop, ctx):
        # reuse HistProp.script with a custom body through skeleton slot
        return await super().script(loop, ctx)

    async def setup(self, w, rnd, ctx):
        ss = w.session()
        w.tolerate.add("keep-subscribed") if ctx["script"] % 4 == 1 else None
        pool = all_names(rnd)
        steps = rnd.randint(10, 30) if ctx["tier"] == "quick" else rnd.randint(10, 45)
        await check_namespace(w, ss, rnd, "initial", deep=False)
        for i in range(steps):
            ss = await ns_step(self, w, rnd, ss, pool)
            if ss.s.writer.closed or ss.s.wire_error:
                ss = w.session()
            await check_namespace(w, ss, rnd, f"after step {i}: {w.steps[-1][:80] if w.steps else ''}")
            if rnd.random() < 0.3:
                await w.observe()
        await w.observe()
        w.opts["_ns_done"] = True

    def nontrivial(self, w):
        s = w.stats
        depth2 = any(n.count("/") >= 1 for n in w.boxes) or s["subtree_renames"] > 0
        return depth2 and (s["renames"] + s["deletes"]) >= 1 and s["pattern_compares"] >= 4


hp = C17()
# the generic random-step loop of HistProp is not used: steps_quick = 0
hp.steps_quick = (0, 0)
hp.steps_thorough = (0, 0)
hp.observer_cadence = [0]


def classify(wit):
    d = wit.get("data") or {}
    k = wit.get("kind")
    if k == "noselect-attribute-wrong" and d.get("subscribed"):
        return "C17-subscribed-leaf-kept-as-noselect"
    if k == "list-differs-from-model" and d.get("extra") and not d.get("missing") and set(d["extra"]) <= set(d.get("noselect_extra") or []) and set(d["extra"]) <= set(d.get("deleted_subscribed") or []):
        return "C17-subscribed-leaf-kept-as-noselect"
    return None


plan, run_shard, replay_specs, finish = module_api(
    hp, quick=144, thorough=6000, classify=classify,
    rule=("one case = one history of 10-30 namespace commands (CREATE/DELETE/RENAME incl. RENAME INBOX/SUBSCRIBE/UNSUBSCRIBE, invalid ones, APPENDs, orderly "
          "restarts) over names with spaces and regex/SQL metacharacters nested to depth 3; after every command LIST \"\" *, LSUB \"\" *, four generated "
          "(reference, pattern) pairs, one LIST-EXTENDED form and the directory tree are compared with the model, refused commands must change nothing, and the "
          "observer compares the messages/UIDs/flags of every mailbox (renamed subtrees included); non-trivial = depth >= 2 reached with a RENAME or DELETE; "
          "distinct = hash of the operation sequence with numbers abstracted"),
    floors={"list_compares": 1000, "pattern_compares": 3000, "attr_compares": 5000, "disk_tree_compares": 1000, "renames": 50, "deletes": 100, "extended_compares": 500},
)
