"""C13 -- mail delivered by MH tools appears correctly; MH tools see IMAP
flag changes.  Monitors: delivery announcement (view replayer + flush
comparison + first-announcement \\Recent rule), and .mh_sequences read with the
stdlib MH parser after every completed command."""
from .hist_base import HistProp, module_api

PROP = "C13"


async def sk_number_reuse(hp, w, rnd, ctx):
    """Expunge the highest-numbered messages, deliver (reusing the numbers):
    the new messages have exactly the agent's flags."""
    a = w.session()
    b = w.session()
    for i in range(5):
        await w.op_append(a, "INBOX", flags=["\\Seen"])
    await w.op_select(a, "INBOX")
    await w.op_select(b, "INBOX")
    await w.op_store(a, [4, 5], "add", ["\\Deleted", "\\Flagged", "kw1"])
    w.check_disk("INBOX")
    await w.op_expunge(a)
    w.check_disk("INBOX", "after EXPUNGE")
    w.deliver("INBOX", 2, unseen=[True, False])
    w.stats["number_reuse_scenarios"] += 1
    await w.rig.advance(6)
    await w.op_noop(a)
    await w.op_noop(b)
    await w.observe()
    w.check_disk("INBOX")


async def sk_delivery_to_idle_unselected_inactive(hp, w, rnd, ctx):
    a = w.session()
    b = w.session()
    c = w.session()
    await w.op_create(a, "other")
    for i in range(3):
        await w.op_append(a, "INBOX")
    await w.op_select(a, "INBOX")
    await w.op_select(b, "INBOX")
    await w.op_idle(b)
    w.deliver("INBOX", 2, unseen=[True, True])
    w.deliver("other", 1, unseen=[False])
    await w.rig.advance(25)
    await w.op_done(b)
    await w.op_noop(b)
    await w.op_noop(a)
    await w.op_select(c, "other")
    await w.op_noop(c)
    await w.observe()
    await w.restart()
    w.deliver("INBOX", 1)
    w.deliver("other", 2, unseen=[True, False])
    a = w.session()
    await w.op_select(a, "other")
    await w.op_noop(a)
    await w.observe()
    w.check_disk("INBOX")
    w.check_disk("other")


async def sk_move_close_then_deliver(hp, w, rnd, ctx):
    a = w.session()
    await w.op_create(a, "other")
    for i in range(4):
        await w.op_append(a, "INBOX", flags=["\\Flagged"])
    await w.op_select(a, "INBOX")
    await w.op_copy(a, [3, 4], "other", move=True)
    w.check_disk("INBOX", "after MOVE")
    w.deliver("INBOX", 2, unseen=[False, True])
    await w.rig.advance(6)
    await w.op_noop(a)
    await w.op_store(a, [a.nview()], "add", ["\\Deleted"])
    await w.op_unselect(a, close=True)
    w.check_disk("INBOX", "after CLOSE")
    w.deliver("INBOX", 1, unseen=[False])
    await w.op_select(a, "INBOX")
    await w.observe()
    w.check_disk("INBOX")


async def sk_delivery_into_freed_numbers_then_restart(hp, w, rnd, ctx):
    """Message numbers are freed wholesale (RENAME INBOX moves everything out;
    a mailbox deleted to a placeholder and created again), the agent files
    new mail under those numbers, the server is restarted: the new messages
    have exactly the agent's flags -- before and after the restart, in FETCH
    and on disk after the next flag change."""
    a = w.session()
    b = w.session()
    await w.op_create(a, "ph/child")
    for nm in ("INBOX", "ph"):
        for i in range(3):
            await w.op_append(a, nm, flags=[["\\Seen"], ["\\Answered", "\\Flagged", "kw1"], ["\\Deleted", "\\Seen"]][i])
    await w.op_select(a, "INBOX")
    await w.op_select(b, "ph")
    await w.op_store(b, [1], "add", ["$Forwarded"])
    await w.op_select(b, "INBOX")
    await w.observe()
    await w.op_rename(a, "INBOX", "saved")
    await w.op_delete(a, "ph")
    await w.op_create(a, "ph")
    w.deliver("INBOX", 2, unseen=[True, False])
    w.deliver("ph", 2, unseen=[False, True])
    await w.rig.advance(25)
    await w.op_noop(a)
    await w.op_noop(b)
    await w.observe()
    await w.restart()
    a = w.session()
    await w.observe()
    await w.op_select(a, "INBOX")
    await w.op_store(a, [1], "add", ["\\Seen"])
    w.check_disk("INBOX")
    await w.op_select(a, "ph")
    await w.op_store(a, [2], "add", ["\\Flagged"])
    w.check_disk("ph")
    w.check_disk("saved")
    await w.observe()


async def sk_rename_inbox_right_after_a_delivery(hp, w, rnd, ctx):
    """The agent files mail and, before any session has synchronised, INBOX is
    renamed: wherever the new messages end up, they are announced there with
    exactly the agent's flags."""
    a, b = w.session(), w.session()
    for i in range(3):
        await w.op_append(a, "INBOX", flags=[["\\Seen"], ["\\Flagged", "\\Seen"], []][i])
    await w.op_select(a, "INBOX")
    await w.op_select(b, "INBOX")
    await w.observe()
    w.deliver("INBOX", 2, unseen=[True, False])
    await w.op_rename(a, "INBOX", "saved")
    await w.rig.advance(25)
    await w.op_noop(b)
    await w.op_noop(a)
    await w.observe()
    w.check_disk("INBOX")
    w.check_disk("saved")


async def sk_delivery_while_an_expunge_is_running(hp, w, rnd, ctx):
    """The agent files mail while a session's EXPUNGE (then a CLOSE, then a
    MOVE) is in the middle of removing messages -- its client reads slowly, so
    the command is still running.  The new messages must be announced, with the
    agent's flags, by the next synchronisation points."""
    import asyncio

    a, b = w.session(), w.session()
    await w.op_create(a, "other")
    for i in range(9):
        await w.op_append(a, "INBOX", flags=[["\\Deleted"], ["\\Seen"], ["\\Deleted", "\\Seen"]][i % 3])
    await w.op_select(a, "INBOX")
    await w.op_select(b, "INBOX")
    await w.ensure_uids_known(a)
    await w.observe()
    for how in ("fetch", "expunge", "move", "close"):
        if a.nview() < 2:
            break
        if how not in ("expunge", "fetch"):
            await w.op_store(a, [1, 2], "add", ["\\Deleted"])
        ev = asyncio.Event()
        a.s.writer.stall_ev = ev
        w.no_probe = True
        try:
            if how == "fetch":
                # a body fetch of everything, not peeking: it changes flags (and rewrites .mh_sequences) when it ends
                task = asyncio.ensure_future(w.op_fetch(a, list(range(1, a.nview() + 1)), "UID BODY[]", sets_seen=True))
            elif how == "expunge":
                task = asyncio.ensure_future(w.op_expunge(a))
            elif how == "move":
                task = asyncio.ensure_future(w.op_copy(a, [1, 2], "other", move=True))
            else:
                task = asyncio.ensure_future(w.op_unselect(a, close=True))
            await w.rig.settle()
            w.deliver("INBOX", 2, unseen=[True, False])
            w.stats["deliveries_during_a_running_removal"] += 1
        finally:
            ev.set()
            a.s.writer.stall_ev = None
        await task
        w.no_probe = False
        if a.s.writer.closed:
            a = w.session()
        if how == "close" or a.view is None:
            await w.op_select(a, "INBOX")
        await w.rig.advance(25)
        await w.op_noop(b)
        await w.op_noop(a)
        await w.observe()
        w.check_disk("INBOX")


async def sk_delivery_while_a_command_is_executing(hp, w, rnd, ctx):
    """The agent files a message while one session's command is still
    executing (slow reader), then another session's flag-changing command
    rewrites .mh_sequences: the new message must still be announced with
    exactly the agent's flags."""
    import asyncio

    a = w.session()
    c = w.session()
    for i in range(5):
        await w.op_append(a, "INBOX", flags=rnd.choice([["\\Seen"], None, ["\\Seen", "kw1"]]))
    await w.op_select(a, "INBOX")
    await w.op_select(c, "INBOX")
    if ctx["seed"] % 2 == 0 or rnd.random() < 0.5:
        # first the mailbox gets a history in which UIDs have run ahead of the message numbers: the highest message
        # is expunged and a delivery takes its number (noticed and announced before the rest begins)
        await w.op_store(a, [5], "add", ["\\Deleted"])
        await w.op_expunge(a)
        w.deliver("INBOX", 1, unseen=[True])
        await w.rig.advance(6)
        await w.op_noop(a)
        await w.op_noop(c)
        await w.observe()
        w.stats["uids_ahead_of_message_numbers"] += 1
    for rounds in range(4):
        x = w.rig.session("X")
        r = await x.cmd("SELECT INBOX")
        ev = asyncio.Event()
        x.writer.stall_ev = ev
        await x.cmd(rnd.choice(["FETCH 2 BODY.PEEK[]", "FETCH 1:3 (FLAGS BODY.PEEK[HEADER])", "UID SEARCH ALL"]), wait=False)
        await w.rig.settle()
        unseen = [rnd.random() < 0.6 for _ in range(rnd.randint(1, 2))]
        w.no_probe = True
        try:
            kind = rnd.choice(["store", "store", "store_del", "fetch_seen"])
            if rounds == 0:
                # (the first round is always: one unseen message filed, then a STORE on another message)
                unseen, kind = [True], "store"
            elif rounds == 1:
                # (the second: two messages filed, then a non-peek body FETCH, which changes flags at its end)
                unseen, kind = [False, True], "fetch_seen"
            w.deliver("INBOX", len(unseen), unseen=unseen)
            w.stats["deliveries_during_executing_command"] += 1
            n = a.nview()
            if kind == "store":
                await w.op_store(a, [rnd.randint(1, n)], rnd.choice(["add", "remove"]), [rnd.choice(["\\Flagged", "\\Answered", "kw1"])], silent=rnd.random() < 0.3)
            elif kind == "store_del":
                await w.op_store(a, [rnd.randint(1, n)], "add", ["\\Deleted"])
            else:
                # a message that is still unseen, if the session knows one: the FETCH then changes its flags
                b_ = w.boxes["INBOX"]
                unseen_pos = [i + 1 for i, cell in enumerate(a.view or []) if cell[0] is not None and b_.by_uid(cell[0]) is not None and "\\Seen" not in b_.by_uid(cell[0]).flags]
                await w.op_fetch(a, [rnd.choice(unseen_pos) if unseen_pos else rnd.randint(1, n)], "UID BODY[]", sets_seen=True)
        finally:
            w.no_probe = False
            ev.set()
            x.writer.stall_ev = None
        await w.rig.settle()
        x.pump()
        if x.writer.closed:
            w.stats["stalled_client_dropped"] += 1
        else:
            await x.cmd("LOGOUT")
        await w.rig.advance(6)
        await w.op_noop(a)
        await w.op_noop(c)
        await w.observe()
        w.check_disk("INBOX")


class C13(HistProp):
    prop = PROP
    names = ["INBOX", "other"]
    skeletons = [sk_number_reuse, sk_delivery_to_idle_unselected_inactive, sk_move_close_then_deliver, sk_delivery_while_a_command_is_executing, sk_delivery_into_freed_numbers_then_restart, sk_delivery_while_an_expunge_is_running, sk_rename_inbox_right_after_a_delivery]
    weights = {"deliver": 16, "store": 8, "store_del": 9, "uid_store": 3, "expunge": 9, "uid_expunge": 3, "move": 4, "copy": 3, "append": 4, "noop": 9, "idle": 5, "advance": 4,
               "fetch_body": 3, "close": 3, "unselect": 3, "restart": 1, "check": 3, "deliver_stalled": 5, "rename_inbox": 1}
    opts = {"rename_targets": ["saved", "kept"]}
    pack_limits = [100, 100, 5]
    observer_cadence = [2, 3, 0]

    async def post_step(self, w, rnd):
        for nm in self.names:
            if nm in w.boxes:
                w.check_disk(nm)

    def nontrivial(self, w):
        s = w.stats
        return s["deliveries"] >= 1 and (s["expunged_msgs"] + s["stores"] + s["close_expunged"]) >= 1 and s["disk_checks"] >= 3


hp = C13()
plan, run_shard, replay_specs, finish = module_api(
    hp, quick=128, thorough=5000,
    rule=("one case = one alternation of external deliveries (single/batch, seen/unseen, to selected, idling, unselected and inactive mailboxes) with IMAP "
          "commands; deliveries must be announced (EXISTS growth, fresh larger UIDs, \\Recent on first announcement, exactly the agent's flags) and after "
          "every completed command .mh_sequences (stdlib MH parser) must list no missing message and agree with the flags sessions see; non-trivial = a "
          "delivery after an expunge or STORE in the same history and >= 3 file comparisons; distinct = hash of the operation sequence with numbers abstracted"),
    floors={"deliveries": 100, "disk_checks": 800, "disk_flag_compares": 2000, "new_msg_first_flags": 100, "number_reuse_scenarios": 1},
)
