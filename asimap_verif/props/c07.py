"""C07 -- everything the server sends is well-formed IMAP.  Oracle: the
strict independent response parser (wire.py) consumes every octet every
session receives; ENVELOPE / LIST / LSUB / STATUS strings round-trip."""
from .. import common
from . import base, msgcheck

PROP = "C07"
LEVEL = "exploration"


def plan(tier, seed, scale):
    return base.plan_scripts(PROP, tier, seed, scale, quick=48, thorough=1500, extra={"per_script": 9})


def run_shard(spec):
    return base.run_scripts(spec, msgcheck.script, user_kwargs={"per_script": spec.get("per_script", 9)})


def replay_specs(rp):
    return base.replay_specs_from(rp)


def classify(w):
    d = w.get("data") or {}
    if w.get("kind") == "malformed-response:quoted":
        return "C07-quoted-string-unescaped"
    return None


def finish(tier, seed, cases, results, errors, wall):
    counts = common.merge_counts(results)
    return common.finish(
        PROP, tier, seed, LEVEL, cases, wall=wall, errors=errors, classify=classify,
        rule=("one case = one server fed generated RFC 5322/MIME messages (every structural class of gen_msg.py; hostile header values: quotes, backslashes, "
              "encoded words, raw 8-bit, folding, missing fields) plus, in script 0, the repository's fixture corpus, delivered as files and by APPEND and "
              "fetched with every data-item form, sections, partials and the FAST/ALL/FULL macros; every fourth script also creates mailboxes with hostile "
              "names and drives error paths that echo client input; non-trivial = a message with a character that needs quoting/a literal or a non-trivial "
              "structure; distinct = script id + message ids"),
        monitor_counts=dict(counts),
        floors={"responses_parsed": 2000, "octets_parsed": 200000, "envelope_roundtrips": 200, "messages_examined": 100},
        assumptions=["the response grammar accepted is the one in DESIGN.md appendix G", "header values containing raw 8-bit octets are excluded from the ENVELOPE round-trip comparison (their value is undefined), not from the well-formedness rules"],
    )
