"""C16 -- message data items are mutually consistent and faithful to what
was stored.  Oracle: equations between the literals of FETCH responses, and
APPEND / COPY fidelity."""
from .. import common
from . import base, msgcheck

PROP = "C16"
LEVEL = "exploration"


def plan(tier, seed, scale):
    return base.plan_scripts(PROP, tier, seed, scale, quick=40, thorough=1400, extra={"per_script": 11})


def run_shard(spec):
    return base.run_scripts(spec, msgcheck.script, user_kwargs={"per_script": spec.get("per_script", 11)})


def replay_specs(rp):
    return base.replay_specs_from(rp)


def classify(w):
    d = w.get("data") or {}
    if w.get("kind") == "bare-cr-or-lf-in-literal" and d.get("where") == "multipart-preamble":
        return "C16-bare-lf-in-multipart-preamble"
    if w.get("kind") == "bare-cr-or-lf-in-literal" and d.get("where") == "unencodable-header-fallback":
        return "C16-bare-lf-in-raw-fallback-of-unencodable-message"
    return None


def finish(tier, seed, cases, results, errors, wall):
    counts = common.merge_counts(results)
    return common.finish(
        PROP, tier, seed, LEVEL, cases, wall=wall, errors=errors, classify=classify,
        rule=("one case = one server fed generated messages of every structural class (7-bit/8-bit, quoted-printable, base64, nested multipart, "
              "message/rfc822 top-level and nested, empty body, header-only, missing final newline, LF / CRLF / mixed endings, dot lines) plus the fixture "
              "corpus in script 0, stored as files and by APPEND; per stored message the equations RFC822.SIZE=|BODY[]|, HEADER||TEXT=BODY[], RFC822*=BODY[*], "
              "<o.n> = slice, repeatability, CRLF-only lines, APPEND field/content fidelity and COPY byte identity are evaluated; non-trivial = multipart, "
              "8-bit, odd line endings, empty/header-only or fixture message; distinct = script id + message ids"),
        monitor_counts=dict(counts),
        floors={"messages_examined": 100, "eq_size": 100, "eq_header_text": 100, "eq_partial": 400, "eq_repeat": 100, "append_fidelity_checks": 40, "copy_fidelity_checks": 40},
        assumptions=["APPEND fidelity compares header fields as a multiset of (name, RFC 2047-decoded, white-space-collapsed value) and bodies after transfer decoding"],
    )
