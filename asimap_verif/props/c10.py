"""C10 -- concurrent sessions behave like some sequential order and never
deadlock.

Runs small sets of concurrently issued commands from 2-3 sessions on the
real server under the deterministic scheduler (SLoop): every explored
schedule is a possible arrival order of I/O completions (database thread,
file executor), timers and commands.  Oracle: the normalised outcome of every
command plus the final contents of every mailbox must equal those of *some*
sequential execution of the same commands that respects each session's order
(the sequential executions are produced by the same server run one command at
a time, in every admissible permutation; a MOVE also as its documented steps),
and every command must complete without the command watchdog."""
import asyncio
import itertools
import re

from .. import common
from ..common import Case, HELD, INCONCLUSIVE, VIOLATED
from ..gen import CidFactory, rng
from ..history import expand_uidset
from ..rig import Rig, run_case
from ..vloop import WallWatchdog, fifo_all_strategy, make_slow_db_strategy, one_at_a_time_strategy, random_strategy
from . import base

PROP = "C10"
LEVEL = "exploration"

INBOX_FLAGS = [["\\Seen"], ["\\Deleted"], [], ["\\Deleted", "\\Flagged"], ["\\Seen"]]
OTHER_FLAGS = [[], ["\\Deleted"], ["\\Seen"]]

# (text, needs-selected-mailbox or None, weight)
POOL_INBOX = [
    "UID FETCH 1:* (FLAGS BODY.PEEK[HEADER.FIELDS (X-CID)])", "UID STORE 2:3 +FLAGS (\\Flagged)", "UID STORE 1:* -FLAGS (\\Deleted)", "UID STORE 5 +FLAGS (\\Deleted)",
    "UID SEARCH DELETED", "UID SEARCH FLAGGED", "UID COPY 1:2 other", "UID COPY 3:5 other", "UID MOVE 2:4 other", "UID MOVE 1 other", "EXPUNGE", "UID EXPUNGE 2", "UID EXPUNGE 4:5",
    "APPEND INBOX", "APPEND other", "NOOP", "CHECK", "STATUS other (MESSAGES)", "UID FETCH 3 (BODY[])", "UID STORE 1:5 FLAGS (kwx)", "UID COPY 1:* INBOX",
]
POOL_OTHER = [
    "UID FETCH 1:* (FLAGS BODY.PEEK[HEADER.FIELDS (X-CID)])", "UID COPY 1:2 INBOX", "UID MOVE 1:3 INBOX", "UID MOVE 2 INBOX", "EXPUNGE", "UID STORE 1:* +FLAGS (\\Deleted)", "UID SEARCH DELETED",
    "APPEND INBOX", "APPEND other", "NOOP", "STATUS INBOX (MESSAGES)", "CLOSE",
]
POOL_NONE = ["APPEND INBOX", "APPEND other", "STATUS INBOX (MESSAGES)", "STATUS other (MESSAGES)", "RENAME other other2", "DELETE other", "NOOP", "CREATE other3", "SELECT INBOX", "EXAMINE other"]

FORCED = [
    # opposite-direction COPY / MOVE between two mailboxes
    [("INBOX", ["UID COPY 1:3 other"]), ("other", ["UID COPY 1:2 INBOX"])],
    [("INBOX", ["UID MOVE 1:3 other"]), ("other", ["UID MOVE 1:2 INBOX"])],
    [("INBOX", ["UID MOVE 2:4 other"]), ("other", ["UID MOVE 1:3 INBOX"]), ("INBOX", ["UID COPY 1 other"])],
    # two commands queued behind an EXPUNGE
    [("INBOX", ["EXPUNGE"]), ("INBOX", ["UID FETCH 1:5 (FLAGS BODY.PEEK[HEADER.FIELDS (X-CID)])"]), ("INBOX", ["UID STORE 3:5 +FLAGS (\\Flagged)"])],
    [("INBOX", ["EXPUNGE"]), ("INBOX", ["UID COPY 1:5 other"]), ("INBOX", ["UID SEARCH SEEN"])],
    [("INBOX", ["UID EXPUNGE 2"]), ("INBOX", ["UID MOVE 3:5 other"])],
    # deletion / rename of a mailbox with queued commands
    [("other", ["UID FETCH 1:* (FLAGS BODY.PEEK[HEADER.FIELDS (X-CID)])"]), (None, ["DELETE other"]), ("INBOX", ["UID COPY 1:2 other"])],
    [("other", ["UID STORE 1:* +FLAGS (\\Flagged)"]), (None, ["RENAME other other2"]), ("INBOX", ["UID COPY 1 other"])],
    [("INBOX", ["APPEND INBOX"]), ("INBOX", ["APPEND INBOX"]), ("INBOX", ["UID MOVE 1:* other"])],
    [("INBOX", ["UID STORE 1:* +FLAGS (\\Deleted)", "EXPUNGE"]), ("INBOX", ["UID STORE 1:* -FLAGS (\\Deleted)"])],
    # two commands already executing (one disjoint from, one overlapping the newcomer's messages) when a third arrives
    [("INBOX", ["UID FETCH 5 (FLAGS BODY.PEEK[HEADER.FIELDS (X-CID)] BODY.PEEK[])"]), ("INBOX", ["UID COPY 1:4 other"]), ("INBOX", ["UID STORE 1:4 +FLAGS (\\Flagged)"])],
    [("INBOX", ["UID FETCH 5 (FLAGS BODY.PEEK[HEADER.FIELDS (X-CID)] BODY.PEEK[])"]), ("INBOX", ["UID FETCH 1:4 (FLAGS BODY.PEEK[HEADER.FIELDS (X-CID)] BODY.PEEK[])"]), ("INBOX", ["UID STORE 1:4 +FLAGS (\\Flagged)"])],
    [("INBOX", ["UID STORE 5 +FLAGS (kwx)"]), ("INBOX", ["UID MOVE 1:3 other"]), ("INBOX", ["UID STORE 2:4 +FLAGS (\\Answered)"])],
    [("INBOX", ["UID COPY 5 other"]), ("INBOX", ["UID COPY 1:4 other"]), ("INBOX", ["UID STORE 1:4 FLAGS (\\Draft)"]), ],
    # a uid-forced EXPUNGE (POP3 QUIT, MOVE phase 3) arriving when the Deleted sequence is empty, beside a COPY/FETCH reading the same messages
    [("pop3", ["DELE 3", "QUIT"]), ("INBOX", ["EXPUNGE"]), ("INBOX", ["UID COPY 3:5 other"])],
    [("pop3", ["DELE 1", "DELE 3", "QUIT"]), ("INBOX", ["UID STORE 1:* -FLAGS (\\Deleted)"]), ("INBOX", ["UID FETCH 1:* (FLAGS BODY.PEEK[HEADER.FIELDS (X-CID)] BODY.PEEK[])"])],
    [("INBOX", ["UID STORE 1:* -FLAGS (\\Deleted)", "UID MOVE 1,3 other"]), ("INBOX", ["UID COPY 1:5 other"]), ("INBOX", ["UID FETCH 1:* (FLAGS BODY.PEEK[HEADER.FIELDS (X-CID)] BODY.PEEK[])"])],
    # no message is flagged \\Deleted: an ordinary EXPUNGE has nothing to do and does not wait, MOVE's own removal must
    [("#", ["nodeleted"]), ("INBOX", ["UID MOVE 1 other"]), ("INBOX", ["UID COPY 1:5 other"])],
    [("#", ["nodeleted"]), ("INBOX", ["UID MOVE 2:3 other"]), ("INBOX", ["UID COPY 1:5 other"]), ("INBOX", ["UID FETCH 1:5 (FLAGS BODY.PEEK[HEADER.FIELDS (X-CID)] BODY.PEEK[])"])],
    [("#", ["nodeleted"]), ("INBOX", ["UID MOVE 1,4 other", "NOOP"]), ("INBOX", ["UID STORE 1:5 +FLAGS (\\Flagged)", "UID COPY 3:5 other"])],
    # POP3 reads its snapshot while IMAP removes messages
    [("pop3", ["RETR 5", "RETR 3", "QUIT"]), ("INBOX", ["EXPUNGE"])],
    [("pop3", ["TOP 4 1", "RETR 5", "RETR 1"]), ("INBOX", ["UID MOVE 1:2 other"]), ("INBOX", ["UID FETCH 3:5 (FLAGS BODY.PEEK[HEADER.FIELDS (X-CID)])"])],
    # POP3 QUIT with marks while IMAP works on INBOX
    [("pop3", ["DELE 1", "DELE 3", "QUIT"]), ("INBOX", ["UID COPY 1:5 other"]), ("INBOX", ["EXPUNGE"])],
    [("pop3", ["DELE 2", "QUIT"]), ("INBOX", ["UID MOVE 1:3 other"])],
    # commands that carry *sequence numbers* racing a removal: they act on the messages the numbers meant when they were
    # sent, or are refused -- never on what the numbers mean after the renumbering
    [("INBOX", ["STORE 3 +FLAGS (\\Answered)", "NOOP"]), ("INBOX", ["EXPUNGE", "NOOP"])],
    [("INBOX", ["FETCH 3:5 (UID FLAGS BODY.PEEK[HEADER.FIELDS (X-CID)])", "NOOP"]), ("INBOX", ["UID EXPUNGE 2", "NOOP"])],
    [("INBOX", ["COPY 3:5 other", "NOOP"]), ("INBOX", ["EXPUNGE"]), ("INBOX", ["STORE 5 +FLAGS (\\Flagged)", "NOOP"])],
    [("#", ["nodeleted"]), ("INBOX", ["STORE 4:5 FLAGS (kwx)", "NOOP"]), ("INBOX", ["UID MOVE 1:2 other"]), ("INBOX", ["MOVE 3 other", "NOOP"])],
    # the source mailbox of a COPY/MOVE is deleted by another session once the source has been read
    [("other", ["UID COPY 1:2 INBOX"]), (None, ["EXAMINE other"]), (None, ["NOOP", "DELETE other"])],
    [("other", ["UID MOVE 1:3 INBOX", "NOOP"]), (None, ["DELETE other"]), ("INBOX", ["NOOP", "NOOP"])],
    # message numbers on disk differ from sequence numbers (UIDs are 2..6 here): a narrow UID EXPUNGE beside readers
    [("#", ["gap"]), ("INBOX", ["UID FETCH 2:6 (FLAGS BODY.PEEK[HEADER.FIELDS (X-CID)] BODY.PEEK[])"]), ("INBOX", ["UID EXPUNGE 3"])],
    [("#", ["gap"]), ("INBOX", ["UID COPY 2:6 other"]), ("INBOX", ["UID EXPUNGE 5", "NOOP"]), ("INBOX", ["UID SEARCH TEXT body"])],
    [("#", ["gap"]), ("INBOX", ["UID STORE 2:6 +FLAGS (kwx)", "NOOP"]), ("INBOX", ["UID EXPUNGE 3", "UID EXPUNGE 5"]), ("INBOX", ["UID FETCH 4:6 (FLAGS BODY.PEEK[HEADER.FIELDS (X-CID)])"])],
    # the server has just been started again: no mailbox is active yet.  Two sessions name the same inactive mailbox (one
    # activates it, the other waits for that) while a third renames / creates / deletes elsewhere in the tree
    [("#", ["restart"]), (None, ["RENAME other other2"]), (None, ["STATUS third (MESSAGES UIDNEXT)"]), (None, ["STATUS third (MESSAGES UIDNEXT)"])],
    [("#", ["restart"]), (None, ["RENAME other other2", "NOOP"]), (None, ["EXAMINE third"]), (None, ["APPEND third"]), (None, ["STATUS third (MESSAGES)"])],
    [("#", ["restart"]), (None, ["CREATE other3", "RENAME other3 other4"]), (None, ["STATUS third (MESSAGES)", "STATUS other (MESSAGES)"]), (None, ["SELECT third", "UID FETCH 1:* (FLAGS BODY.PEEK[HEADER.FIELDS (X-CID)])"])],
    [("#", ["restart"]), (None, ["RENAME third third2"]), (None, ["STATUS other (MESSAGES)"]), (None, ["EXAMINE other"]), (None, ["STATUS INBOX (MESSAGES)"])],
    # ... the same with a renamed tree of several mailboxes (one database update per mailbox, each made with the table of active
    # mailboxes locked) and two pairs of sessions waking two inactive mailboxes
    [("#", ["restart"]), (None, ["RENAME tree tree2", "RENAME tree2 tree3"]), (None, ["STATUS third (MESSAGES)"]), (None, ["STATUS third (MESSAGES)"]), (None, ["STATUS fourth (MESSAGES)"]), (None, ["EXAMINE fourth"])],
]


def gen_set(rnd):
    n = rnd.choice([2, 2, 2, 3])
    out = []
    for i in range(n):
        where = rnd.choice(["INBOX", "INBOX", "other", None])
        pool = {"INBOX": POOL_INBOX, "other": POOL_OTHER, None: POOL_NONE}[where]
        cmds = [rnd.choice(pool) for _ in range(rnd.choice([1, 1, 2]))]
        out.append((where, cmds))
    if rnd.random() < 0.12:
        out[0] = ("pop3", [f"DELE {rnd.randint(1, 5)}", "QUIT"])
    return out


async def setup_state(rig, nodeleted=False, gap=False, restart=False):
    cids = CidFactory("q")
    s = rig.session("Z")
    await s.cmd("CREATE other")
    if restart:
        for nm in ("third", "fourth", "tree", "tree/a", "tree/b", "tree/c", "tree/a/deep"):
            await s.cmd(f"CREATE {nm}")
    table = {}
    if gap:
        # variant: a message that came first is gone again, so the MH message numbers (and the UIDs: 2..6) of what
        # follows are not the sequence numbers (1..5)
        await s.append("inbox", b"From: a@b\r\nSubject: gone again\r\nX-CID: gone0\r\n\r\nwas the first\r\n", flags=["\\Deleted"])
    for i, fl in enumerate([[f for f in x if f != "\\Deleted"] for x in INBOX_FLAGS] if nodeleted else INBOX_FLAGS):
        cid, m = cids.make()
        await s.append("inbox", m, flags=fl)
        table[("INBOX", i + 1)] = cid
    for i, fl in enumerate(OTHER_FLAGS):
        cid, m = cids.make()
        await s.append("other", m, flags=fl)
        table[("other", i + 1)] = cid
    if gap:
        await s.cmd("SELECT inbox")
        await s.cmd("UID EXPUNGE 1")
        await s.cmd("UNSELECT")
    if restart:
        for i in range(2):
            cid, m = cids.make()
            await s.append("third", m, flags=[["\\Seen"], []][i])
            table[("third", i + 1)] = cid
        cid, m = cids.make()
        await s.append("fourth", m, flags=[])
        table[("fourth", 1)] = cid
    await s.cmd("LOGOUT")
    if restart:
        await rig.restart()
    return cids, table


def msg_for_append(k, i):
    return (f"From: a@b\r\nSubject: appended\r\nX-CID: new{k}x{i}\r\n\r\nbody new{k}x{i}\r\n").encode()


def pop3_outcome(c, rep):
    """Normalised outcome of a POP3 command: status, and for RETR/TOP which
    message (content id) the reply carries."""
    if rep is None:
        return ("NOREPLY",)
    if not rep.ok:
        return ("-ERR",)
    if c.split()[0].upper() in ("RETR", "TOP"):
        m = re.search(rb"X-CID:\s*(\S+)", rep.body or b"")
        return ("+OK", m.group(1).decode() if m else None)
    return ("+OK",)


def norm_outcome(text, r, uidmap):
    """Normalised outcome of one IMAP command: what the model speaks about."""
    st = r.status
    if st not in ("OK", "NO", "BAD"):
        if any(x.kind == "status" and x.status == "BYE" for x in r.responses):
            # the server said good-bye (selected mailbox deleted underneath):
            # a legal completion, and like NO/BAD the command was not executed
            return ("REFUSED", "BYE")
        return (st,)
    if st != "OK":
        return ("REFUSED",)  # NO and BAD alike: refused, and (checked through the final state) without effect
    word = text.split()
    verb = (word[1] if word[0] == "UID" else word[0]).upper()
    if verb == "FETCH":
        rows = []
        for n, d in r.fetches():
            cid = None
            for k, v in d.items():
                if k.startswith("BODY[") and v is not None:
                    m = re.search(rb"X-CID:\s*(\S+)", bytes(v))
                    if m:
                        cid = m.group(1).decode()
            if "UID" in d and (cid or any(k.startswith("BODY[") for k in d)):
                if cid:
                    uidmap[d["UID"]] = cid
                rows.append((cid or f"uid{d['UID']}", tuple(sorted(f for f in d.get("FLAGS", []) if f not in ("\\Recent", "unseen"))) if "FLAGS" in d else None))
        return ("OK", tuple(sorted(rows, key=repr)))
    if verb == "STORE":
        rows = []
        for n, d in r.fetches():
            if "UID" in d and "FLAGS" in d:
                rows.append((d["UID"], tuple(sorted(f for f in d["FLAGS"] if f not in ("\\Recent", "unseen")))))
        return ("OK", "STORE", tuple(sorted(rows)))
    if verb == "SEARCH":
        got = set()
        for x in r.untagged("SEARCH"):
            got.update(x.data)
        return ("OK", "SEARCH", tuple(sorted(got)))
    if verb in ("COPY", "MOVE"):
        code = r.tagged.code or ""
        for x in r.responses:
            if x.kind == "status" and x.code and x.code.startswith("COPYUID"):
                code = x.code
        m = re.match(r"COPYUID \d+ (\S*) (\S*)", code + " ")
        src = expand_uidset(m.group(1)) if m and m.group(1) else []
        return ("OK", verb, tuple(src))
    if verb == "STATUS":
        for x in r.untagged("STATUS"):
            return ("OK", "STATUS", tuple(sorted(x.data["atts"].items())))
    if verb in ("SELECT", "EXAMINE"):
        ex = [x.num for x in r.responses if x.kind == "num" and x.name == "EXISTS"]
        return ("OK", verb, ex[-1] if ex else None)
    return ("OK",)


async def final_state(rig):
    o = rig.session("O")
    r = await o.cmd('LIST "" *')
    state = {}
    for x in r.untagged("LIST"):
        nm = x.data["name"]
        nm = bytes(nm).decode("latin-1") if not isinstance(nm, str) else str(nm)
        if nm in ("Archive", "Deleted Messages", "Drafts", "Junk", "Sent Messages"):
            continue
        if "\\Noselect" in x.data["attrs"]:
            state[nm] = "noselect"
            continue
        rs = await o.cmd("EXAMINE " + ('"%s"' % nm))
        rows = []
        ex = [y.num for y in rs.responses if y.kind == "num" and y.name == "EXISTS"]
        if rs.ok and ex and ex[-1]:
            rf = await o.cmd("UID FETCH 1:* (UID FLAGS BODY.PEEK[HEADER.FIELDS (X-CID)])")
            last = 0
            for n, d in sorted(rf.fetches(), key=lambda t: t[0]):
                if "UID" not in d:
                    continue
                m = re.search(rb"X-CID:\s*(\S+)", bytes(d.get("BODY[HEADER.FIELDS (X-CID)]") or b""))
                rows.append((m.group(1).decode() if m else None, tuple(sorted(f for f in d.get("FLAGS", []) if f not in ("\\Recent", "unseen")))))
                if d["UID"] <= last:
                    rows.append(("UIDS-NOT-ASCENDING", ()))
                last = d["UID"]
        await o.cmd("UNSELECT")
        state[nm] = tuple(rows)
    return state


async def run_session(rig, idx, where, cmds, k, results, uidmap, order_log):
    """One session: select, then send its commands one after the other."""
    if where == "pop3":
        p = rig.pop3(f"P{idx}")
        outs = []
        loop = rig.loop
        paced = getattr(loop, "rng", None) is not None and getattr(loop, "strategy", None) is not fifo_all_strategy and getattr(loop, "replay", None) is None
        for c in cmds:
            if paced:
                for _ in range(loop.rng.randint(0, 2)):
                    await loop.run_in_executor(None, int)
            rep = await p.cmd(c)
            order_log.append((idx, c))
            outs.append(pop3_outcome(c, rep))
        results[idx] = outs
        return
    s = rig.sessions_by_idx[idx]
    outs = []
    loop = rig.loop
    paced = getattr(loop, "rng", None) is not None and getattr(loop, "strategy", None) is not fifo_all_strategy and getattr(loop, "replay", None) is None
    for j, c in enumerate(cmds):
        if paced:
            # client think time as a schedulable event (a no-op thread job whose completion
            # the scheduler releases among the server's own): commands also arrive while
            # other sessions' commands are half way through
            for _ in range(loop.rng.randint(0, 2)):
                await loop.run_in_executor(None, int)
        if c.startswith("APPEND "):
            box = c.split()[1]
            # content id by the ordinal of this APPEND among the session's APPENDs
            # (the same in the step-split reference variant, whose lists are longer)
            m = msg_for_append(k, idx * 10 + sum(1 for x in cmds[:j] if x.startswith("APPEND ")))
            r = await s.cmd(b"APPEND " + box.encode() + b" {%d+}\r\n" % len(m) + m)
        else:
            r = await s.cmd(c)
            if c.startswith("UID FETCH "):
                if not hasattr(rig, "uidfetch_log"):
                    rig.uidfetch_log = []
                rig.uidfetch_log.append((s.name, c, r.status, [d["UID"] for n, d in r.fetches() if "UID" in d]))
        order_log.append((idx, c))
        outs.append(norm_outcome(c, r, uidmap) + ((f"latency>{int(r.latency)}",) if (r.latency or 0) >= 60 else ()))
        if outs[-1] == ("REFUSED", "BYE"):
            rig.bye_sessions.add(s.name)
            outs[-1] = ("REFUSED",)
            outs.extend([("REFUSED",)] * (len(cmds) - j - 1))
            break
    results[idx] = outs


async def one_run(loop, ctx, cmdset, mode, order=None):
    """mode 'concurrent': all sessions start together.  mode 'sequential':
    commands are issued one at a time in the given order (list of session
    indexes)."""
    rig = await Rig(ctx["dir"] + "/mail", loop).start()
    k = ctx["script"]
    info = {"watchdog": 0, "closed": []}
    options = ctx.get("options") or []
    try:
        cids, table = await setup_state(rig, nodeleted="nodeleted" in options, gap="gap" in options, restart="restart" in options)
        rig.sessions_by_idx = {}
        rig.bye_sessions = set()
        for idx, (where, cmds) in enumerate(cmdset):
            if where == "pop3":
                continue
            s = rig.session(f"C{idx}x")
            rig.sessions_by_idx[idx] = s
            if where:
                await s.cmd(f"SELECT {where}")
        await rig.settle()
        results = {}
        uidmap = {}
        order_log = []
        if mode == "concurrent":
            # command arrival order is part of the schedule: which session's first
            # command the server sees first is drawn from the scheduler's generator
            # (FIFO schedule and replays: session order)
            arrival = list(enumerate(cmdset))
            if getattr(loop, "rng", None) is not None and getattr(loop, "strategy", None) is not fifo_all_strategy and getattr(loop, "replay", None) is None:
                loop.rng.shuffle(arrival)
            info["arrival"] = [i for i, _ in arrival]
            tasks = [asyncio.create_task(run_session(rig, idx, where, cmds, k, results, uidmap, order_log)) for idx, (where, cmds) in arrival]
            done, pending = await asyncio.wait(tasks, timeout=600)
            for t in pending:
                t.cancel()
            for t in done:
                if t.exception() is not None:
                    raise t.exception()
            if pending:
                info["stuck"] = len(pending)
        else:
            # sequential: emulate per-session order with queues
            iters = {}
            pop3 = {}
            outs = {idx: [] for idx in range(len(cmdset))}
            pos = {idx: 0 for idx in range(len(cmdset))}
            for idx in order:
                where, cmds = cmdset[idx]
                c = cmds[pos[idx]]
                pos[idx] += 1
                if where == "pop3":
                    if idx not in pop3:
                        pop3[idx] = rig.pop3(f"P{idx}")
                    rep = await pop3[idx].cmd(c)
                    outs[idx].append(pop3_outcome(c, rep))
                    continue
                s = rig.sessions_by_idx[idx]
                if c.startswith("APPEND "):
                    box = c.split()[1]
                    m = msg_for_append(k, idx * 10 + sum(1 for x in cmds[: pos[idx] - 1] if x.startswith("APPEND ")))
                    r = await s.cmd(b"APPEND " + box.encode() + b" {%d+}\r\n" % len(m) + m)
                elif c.startswith("XREAD "):
                    # documented step 1 of COPY/MOVE: read the source
                    if s.name in rig.bye_sessions:
                        outs[idx].append(("XSTATE", None, "REFUSED"))
                        continue
                    _, uset, dst = c.split(" ", 2)
                    r = await s.cmd(f"UID FETCH {uset} (UID FLAGS INTERNALDATE BODY.PEEK[])")
                    if r.status != "OK":
                        if any(x.kind == "status" and x.status == "BYE" for x in r.responses):
                            rig.bye_sessions.add(s.name)
                        outs[idx].append(("XSTATE", None, "REFUSED"))
                        continue
                    rows = [(d["UID"], [f for f in d.get("FLAGS", []) if f not in ("\\Recent", "unseen")], d.get("INTERNALDATE"), bytes(d.get("BODY[]") or b"")) for n, d in sorted(r.fetches(), key=lambda t: t[0]) if "UID" in d and "BODY[]" in d]
                    outs[idx].append(("XSTATE", rows, dst))
                    continue
                elif c.startswith("XADD"):
                    st_ = outs[idx][-1]
                    if st_[1] is None:
                        continue
                    if s.name in rig.bye_sessions:
                        outs[idx][-1] = ("XSTATE", None, "REFUSED")
                        continue
                    ok = True
                    for uid, fl, idate, body in st_[1]:
                        ra = await s.cmd(b"APPEND " + st_[2].encode() + b" (" + " ".join(fl).encode() + b') "' + idate.encode() + b'" {%d+}\r\n' % len(body) + body)
                        if ra.status != "OK":
                            ok = False
                            break
                    if not ok:
                        outs[idx][-1] = ("XSTATE", None, "REFUSED")
                    continue
                elif c.startswith("XDONE "):
                    st_ = outs[idx].pop()
                    verb = c.split()[1]
                    if st_[1] is None:
                        outs[idx].append(("REFUSED",))
                        continue
                    src = [u for u, _, _, _ in st_[1]]
                    if verb == "MOVE" and src:
                        if s.name in rig.bye_sessions:
                            outs[idx].append(("REFUSED",))
                            continue
                        us = ",".join(map(str, src))
                        r2 = await s.cmd(f"UID STORE {us} +FLAGS.SILENT (\\Deleted)")
                        if r2.status == "OK":
                            await s.cmd(f"UID EXPUNGE {us}")
                        else:
                            if any(x.kind == "status" and x.status == "BYE" for x in r2.responses):
                                rig.bye_sessions.add(s.name)
                            outs[idx].append(("REFUSED",))
                            continue
                    outs[idx].append(("OK", verb, tuple(src)))
                    continue
                else:
                    if s.name in rig.bye_sessions:
                        outs[idx].append(("REFUSED",))
                        continue
                    r = await s.cmd(c)
                oc = norm_outcome(c, r, uidmap)
                if oc == ("REFUSED", "BYE"):
                    rig.bye_sessions.add(s.name)
                    oc = ("REFUSED",)
                outs[idx].append(oc)
            results = outs
        await rig.settle()
        # at quiescence every session that still has a mailbox selected synchronises once more: the number of
        # messages it can then address must be the size of the view it has been told about (C01's view monitor)
        for s_ in list(rig.sessions):
            if s_.name.startswith(("Z", "O")) or not hasattr(s_, "view_n") or s_.view_n is None or s_.writer.closed or s_.name in rig.bye_sessions or getattr(s_, "idling", False):
                continue
            try:
                rn = await s_.cmd("NOOP")
                if any(x.kind == "status" and x.status == "BYE" for x in rn.responses):
                    rig.bye_sessions.add(s_.name)  # (its mailbox was removed by another session's command)
                    continue
                if rn.status != "OK" or not s_.view_n:
                    continue
                belief = list(s_.view_flags) if s_.view_flags is not None else None
                rf = await s_.cmd("FETCH 1:* (UID FLAGS)")
                if any(x.kind == "status" and x.status == "BYE" for x in rf.responses):
                    rig.bye_sessions.add(s_.name)
                    continue
                if rf.status == "OK":
                    rig.counts["final_view_size_checks"] += 1
                    got_n = len({n for n, d in rf.fetches() if "UID" in d})
                    if got_n != s_.view_n:
                        s_.view_errors.append(f"{s_.name}: at quiescence the session was told of {s_.view_n} messages, FETCH 1:* answers for {got_n}")
                    elif belief is not None and len(belief) == got_n:
                        # what the session has been told about each position's flags is what FETCH says now (C04)
                        for n, d in rf.fetches():
                            b_ = belief[n - 1] if 1 <= n <= len(belief) else None
                            if b_ is None or "FLAGS" not in d:
                                continue
                            rig.counts["final_flag_belief_checks"] += 1
                            now = sorted(str(f) for f in d["FLAGS"] if str(f) not in ("\\Recent", "unseen"))
                            if now != b_[0]:
                                s_.view_errors.append(f"flags: {s_.name}: position {n} (uid {d.get('UID')}): the session was last told {b_[0]} (uid {b_[1]}), at quiescence FETCH says {now}; transcript: {[l[:90] for l in s_.log[-40:]]}")
            except Exception:
                rig.counts["final_view_check_failed"] += 1
        fs = await final_state(rig)
        info["watchdog"] = len(rig.watchdog_hits)
        info["wire"] = len(rig.wire_errors)
        info["closed"] = [s.name for s in rig.sessions if s.writer.closed and not s.name.startswith(("Z", "O")) and s.name not in rig.bye_sessions]
        info["log"] = [x[2][:160] for x in rig.log_records[-3:]]
        for s_ in rig.sessions:
            s_.pump()
        info["view_errors"] = [e for s_ in rig.sessions for e in s_.view_errors]
        # every (UID, content id) pair any session was shown, with the mailbox it had selected (C03's scheduled tier)
        pairs = []
        sel = {f"C{idx}x": where for idx, (where, cmds) in enumerate(cmdset)}
        for s_ in rig.sessions:
            if s_.name not in sel or sel[s_.name] in (None, "pop3"):
                continue
            for r_ in s_.responses:
                if r_.kind == "num" and r_.name == "FETCH":
                    d_ = dict(r_.data)
                    hdr = d_.get("BODY[HEADER.FIELDS (X-CID)]")
                    body = d_.get("BODY[]")
                    m_ = re.search(rb"X-CID:\s*(\S+)", bytes(hdr or body or b""))
                    if "UID" in d_ and m_:
                        pairs.append((s_.name, sel[s_.name], d_["UID"], m_.group(1).decode()))
        info["uid_cid_pairs"] = pairs
        info["uid_fetch_log"] = getattr(rig, "uidfetch_log", [])
        info["view_events"] = rig.counts.get("view_monitor_events", 0)
        info["final_view_checks"] = rig.counts.get("final_view_size_checks", 0)
        info["final_flag_belief_checks"] = rig.counts.get("final_flag_belief_checks", 0)
        return results, fs, info
    finally:
        try:
            await rig.stop()
        except Exception:
            pass


def sequential_orders(cmdset, split_moves):
    """Every interleaving of the sessions' command lists (each list in order)."""
    lists = []
    for idx, (where, cmds) in enumerate(cmdset):
        lists.append([idx] * len(cmds))
    seq = [i for l in lists for i in l]
    seen = set()
    for p in set(itertools.permutations(seq)):
        seen.add(p)
    return sorted(seen)


def with_split_moves(cmdset):
    """COPY / MOVE as their documented steps: read the source; add to the
    destination; (MOVE) remove from the source."""
    out = []
    any_split = False
    for where, cmds in cmdset:
        c2 = []
        for c in cmds:
            m = re.match(r"UID (COPY|MOVE) (\S+) (\S+)$", c)
            if m:
                any_split = True
                c2 += [f"XREAD {m.group(2)} {m.group(3)}", "XADD", f"XDONE {m.group(1)}"]
            else:
                c2.append(c)
        out.append((where, c2))
    return out if any_split else None


def freeze(results, fs):
    return (tuple((i, tuple(results.get(i, ()))) for i in sorted(results)), tuple(sorted((k, v) for k, v in fs.items())))


async def script_dummy(loop, ctx):
    return []


def explore(spec, k, cmdset, counts, scratch, nsched, systematic):
    import shutil
    import tempfile

    # a pseudo entry ("#", [options]) selects a variant of the initial state
    options = [o for w_, cs in cmdset if w_ == "#" for o in cs]
    cmdset = [(w_, cs) for w_, cs in cmdset if w_ != "#"]
    ctx = {"script": k, "dir": None, "options": options}
    allowed = {}
    cases = []

    def fresh():
        d = tempfile.mkdtemp(prefix="m", dir=scratch)
        ctx["dir"] = d
        return d

    # reference: every admissible sequential order (real code, one command at a time)
    variants = [cmdset]
    sm = with_split_moves(cmdset)
    if sm is not None:
        variants.append(sm)
    remaining = []  # (variant, order) not yet run: the reference set is completed on demand

    def run_ref(var, order):
        d = fresh()
        try:
            res, fs, info = run_case(lambda loop: one_run(loop, ctx, var, "sequential", order), seed=1, wall_budget=60)
            allowed[freeze(res, fs)] = order
            counts["reference_runs"] += 1
        except Exception as e:
            counts["reference_failed"] += 1
        finally:
            shutil.rmtree(d, ignore_errors=True)

    for var in variants:
        orders = sequential_orders(var, False)
        if len(orders) > 60:
            r0 = rng(spec["seed"], "c10ord", k)
            r0.shuffle(orders)
            remaining += [(var, o) for o in orders[60:]]
            orders = orders[:60]
            counts["reference_orders_sampled"] += 1
        for order in orders:
            run_ref(var, order)

    def complete_reference_until(fr, budget=700):
        """The observed outcome is not among the sampled sequential orders:
        run the remaining ones until it is found or none is left."""
        n = 0
        while remaining and fr not in allowed and n < budget:
            var, order = remaining.pop()
            run_ref(var, order)
            n += 1
        counts["reference_runs_on_demand"] += n
        return fr in allowed
    sched_hashes = set()
    outcomes_seen = set()
    violations = []
    inconclusive = []

    def run_sched(seed, strategy, replay=None):
        d = fresh()
        try:
            holder = {}

            async def main(loop):
                holder["loop"] = loop
                if replay is not None:
                    loop.replay = replay
                return await one_run(loop, ctx, cmdset, "concurrent")

            try:
                res, fs, info = run_case(main, seed=seed, scheduled=True, wall_budget=60, strategy=strategy)
            except WallWatchdog:
                counts["sched_wall_watchdog"] += 1
                return None
            loop = holder["loop"]
            counts["schedules"] += 1
            counts["sched_decisions"] += loop.decisions
            counts["sched_multi_choice_points"] += loop.multi_choice_points
            sched_hashes.add(common.h(loop.trace))
            fr = freeze(res, fs)
            outcomes_seen.add(fr)
            problems = []
            if info["watchdog"]:
                problems.append(("watchdog", f"{info['watchdog']} command(s) answered by the watchdog; {info['log']}"))
            if info.get("stuck"):
                problems.append(("session-stuck", f"{info['stuck']} session task(s) never finished"))
            for i, outs in res.items():
                for o in outs:
                    if o and o[0] in ("NOREPLY", "CLOSED", "WIREERR") or any(isinstance(x, str) and x.startswith("latency>") for x in o):
                        problems.append(("command-not-completed", f"session {i}: {o}; log={info['log']}"))
            if info["closed"]:
                problems.append(("connection-dropped", f"{info['closed']}; log={info['log']}"))
            if not problems and fr not in allowed and remaining and complete_reference_until(fr):
                pass
            elif not problems and fr not in allowed and remaining:
                inconclusive.append(f"observed outcome not among {len(allowed)} sequential outcomes, but {len(remaining)} sequential orders were not run")
            elif not problems and fr not in allowed:
                # nearest allowed outcome for the witness
                best = None
                for a in allowed:
                    score = sum(1 for x, y in zip(a[0], fr[0]) if x == y) + (2 if a[1] == fr[1] else 0)
                    if best is None or score > best[0]:
                        best = (score, a)
                # which sessions' outcomes differ from *every* sequential outcome with the same final state
                same_final = [a for a in allowed if a[1] == fr[1]]
                differing = None
                if same_final:
                    differing = min((sorted(i for (i, x), (_, y) in zip(a[0], fr[0]) if x != y) for a in same_final), key=len)
                problems.append(("not-linearizable", f"observed outcomes {fr[0]} final {fr[1]}; closest sequential order {allowed.get(best[1]) if best else None} gives outcomes {best[1][0] if best else None} final {best[1][1] if best else None}",
                                 {"final_state_is_sequential": bool(same_final), "sessions_differing": differing,
                                  "observed_of_differing": [list(map(list, dict(fr[0]).get(i, ()))) for i in (differing or [])],
                                  "closest_of_differing": [list(map(list, dict(best[1][0]).get(i, ()))) for i in (differing or [])] if best else None}))
            if problems:
                violations.append((problems, list(loop.trace)[:400], seed, strategy.__name__))
            return loop
        finally:
            shutil.rmtree(d, ignore_errors=True)

    r1 = rng(spec["seed"], "c10sched", k)
    forced_dense = "restart" in options
    fifo_loop = run_sched(1, fifo_all_strategy)
    if fifo_loop is not None:
        fifo_loop._db_released_total = getattr(fifo_loop, "db_completions", 0)  # database round trips of the FIFO run
    if forced_dense and len(cmdset) >= 5:
        nsched = max(nsched, 80)  # (many short windows: one per mailbox of the renamed tree; random schedules find them, given enough of them)
    for i in range(nsched):
        run_sched(r1.randrange(1 << 30), r1.choice([random_strategy, random_strategy, one_at_a_time_strategy]))
        if violations:
            break
    slow = spec.get("slow_db", 0)
    if slow and not violations and (forced_dense or k % 4 == 0):
        # delay injection: runs in which one database round trip is slow (held back while anything else can happen); every
        # round trip of the restart sets, a sample of them elsewhere; two arrival orders each
        fifo_db = getattr(fifo_loop, "_db_released_total", None) or 120
        # (the round trips of the set-up come first; the concurrent part is the tail of the run)
        lo = int(fifo_db * 0.55)
        cand = list(range(lo, fifo_db + 6))
        ks = sorted(r1.sample(cand, min(slow * (3 if forced_dense else 1), len(cand))))
        for kk in ks:
            for sd in ((11, 12) if forced_dense else (11,)):
                run_sched(sd, make_slow_db_strategy(kk))
                counts["slow_db_runs"] += 1
            if violations:
                break
    if systematic and not violations:
        # depth-bounded systematic enumeration of single-release choices
        budget = systematic
        stack = [[]]
        explored = 0
        while stack and explored < budget and not violations:
            prefix = stack.pop()
            loop = run_sched(7, fifo_all_strategy, replay=prefix)
            explored += 1
            if loop is None:
                continue
            # branch at the first few multi-choice points after the prefix
            depth_left = 12 - len([c for c in prefix if len(c) == 1])
            for pos in range(len(prefix), min(len(loop.trace), len(prefix) + 60)):
                ch = loop.trace[pos]
                if len(ch) > 1 and depth_left > 0:
                    for alt in ch[1:]:
                        stack.append([list(c) for c in loop.trace[:pos]] + [[alt]])
                    break
        counts["systematic_runs"] += explored
    counts["distinct_schedules"] += len(sched_hashes)
    counts["distinct_outcomes"] += len(outcomes_seen)
    counts["allowed_outcomes"] += len(allowed)
    key = common.h(cmdset)
    overlap = len(sched_hashes) > 1
    sample = {"commands": cmdset, "sequential_orders": len(allowed), "distinct_schedules": len(sched_hashes), "distinct_outcomes": len(outcomes_seen)}
    if violations:
        problems, trace, seed, strat = violations[0]
        cases.append(Case.make(f"set{k}", VIOLATED, spec=dict(spec, scripts=[k]), nontrivial=True, key=key, sample=sample,
                               witness={"kind": problems[0][0], "detail": problems[0][1][:1500], "all": [p[0] for p in problems], "data": (problems[0][2] if len(problems[0]) > 2 else {}), "commands": cmdset, "schedule": trace[:200], "seed": seed, "strategy": strat}))
    elif inconclusive:
        cases.append(Case.make(f"set{k}", INCONCLUSIVE, spec=dict(spec, scripts=[k]), reason=inconclusive[0], sample=sample))
    else:
        cases.append(Case.make(f"set{k}", HELD, spec=dict(spec, scripts=[k]), nontrivial=overlap and len(cmdset) >= 2, key=key, sample=sample))
    return cases


def run_shard(spec):
    from collections import Counter

    counts = Counter()
    cases = []
    scratch = spec["scratch"]
    for k in spec["scripts"]:
        rnd = rng(spec["seed"], "c10", k)
        cmdset = FORCED[k] if k < len(FORCED) else gen_set(rnd)
        cmdset = [(w, list(c)) for w, c in cmdset]
        if any(c.startswith(("DELETE other", "RENAME other")) for _, cs in cmdset for c in cs):
            # a session whose selected mailbox is deleted underneath may be told
            # NO first and BYE later, or BYE at once: both are legal, so it
            # gets one command only (the orders would otherwise differ in
            # whether its later, mailbox-independent commands still run)
            cmdset = [(w, c[:1] if w == "other" else c) for w, c in cmdset]
        try:
            forced = k < len(FORCED)
            cases += explore(spec, k, cmdset, counts, scratch, spec.get("nsched", 6) * (3 if forced else 1), spec.get("systematic", 0) * (3 if forced else 1) if forced or k % 4 == 0 else 0)
        except Exception:
            import traceback

            cases.append(Case.make(f"set{k}", INCONCLUSIVE, spec=dict(spec, scripts=[k]), reason="harness exception: " + traceback.format_exc()[-600:]))
    return {"cases": cases, "counts": dict(counts)}


def plan(tier, seed, scale):
    n = int((64 if tier == "quick" else 640) * scale)
    return base.plan_scripts(PROP, tier, seed, 1.0, quick=n, thorough=n, extra={"nsched": 6 if tier == "quick" else 30, "systematic": 6 if tier == "quick" else 80, "slow_db": 10 if tier == "quick" else 60})


SHARD_TIMEOUT = {"quick": 1200, "thorough": 7000}


def replay_specs(rp):
    return [dict(rp["case"]["spec"])]


def classify(w):
    cmds = w.get("commands") or []
    flat = [(wh, c) for wh, cs in cmds for c in cs]
    detail = w.get("detail") or ""
    renamed = [c.split()[1] for _, c in flat if c.startswith("RENAME ")]
    removed = [c.split()[1] for _, c in flat if c.startswith(("DELETE ", "RENAME "))]
    if w.get("kind") in ("connection-dropped", "command-not-completed") and renamed and set(w.get("all") or []) <= {"connection-dropped", "command-not-completed"}:
        # a command that names the mailbox (COPY/MOVE destination, STATUS, SELECT) or works in it while RENAME moves it away
        if re.search(r"No such file or directory: '[^']*/mail/(%s)" % "|".join(re.escape(x) for x in renamed), detail) or re.search(r"lock_folder", detail):
            return "C10-rename-races-command-using-the-mailbox"
    if w.get("kind") == "not-linearizable" and removed and (w.get("data") or {}).get("final_state_is_sequential"):
        d = w["data"]
        idxs = d.get("sessions_differing") or []
        # only sessions that have the removed mailbox selected differ, and only by REFUSED where a sequential order says OK
        if idxs and all(cmds[i][0] in removed for i in idxs):
            ok = True
            for obs, clo in zip(d.get("observed_of_differing") or [], d.get("closest_of_differing") or []):
                for o, c in zip(obs, clo):
                    if o != c and not (o and o[0] == "REFUSED"):
                        ok = False
            if ok:
                return "C10-queued-command-refused-when-its-mailbox-is-removed"
    return None


def finish(tier, seed, cases, results, errors, wall):
    counts = common.merge_counts(results)
    return common.finish(
        PROP, tier, seed, LEVEL, cases, wall=wall, errors=errors, classify=classify,
        rule=("one case = one set of concurrently issued commands (2-3 IMAP/POP3 sessions, 1-2 commands each, on the same or two mailboxes with overlapping UID sets; "
              "forced sets first: opposite-direction COPY/MOVE, commands queued behind EXPUNGE, DELETE/RENAME of a mailbox with queued commands, POP3 QUIT with marks) run "
              "under the deterministic scheduler with a FIFO schedule, seeded random / one-at-a-time schedules and, for the forced sets, a depth-bounded systematic "
              "enumeration of single-release choices; outcomes + final mailbox contents must equal those of some sequential order of the same commands (all admissible "
              "orders, MOVE also split into its documented steps, executed by the same server one command at a time); non-trivial = more than one distinct schedule was "
              "observed for the set; distinct = the command set"),
        monitor_counts=dict(counts),
        floors={"schedules": 200, "reference_runs": 200, "distinct_schedules": 100, "sched_multi_choice_points": 500},
        assumptions=["schedules = arrival orders of thread-pool / aiosqlite completions, timers and commands (no yields injected into synchronous code)",
                     "the sequential reference is the same server executing one command at a time; its sequential correctness is the subject of C01-C05",
                     "outcomes are normalised to status, (content id, flags) returned, UID sets, COPYUID sources, STATUS numbers; unsolicited updates are not compared"],
    )
