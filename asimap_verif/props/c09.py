"""C09 -- mailbox names cannot reach outside the user's mail directory.

Monitors: (a) an audit hook on every path-carrying event for the whole life
of the server: nothing that resolves inside the jail but outside the mail
root, nothing anywhere that carries the escape token; (b) a recursive
snapshot (names, sizes, mtimes, SHA-256) of the jail minus the mail root
before/after every command; (c) such names are refused; (d) no leak: no canary
token, no decoy folder name in any response, and identical responses (up to
the echoed name) for outside targets that exist and that do not."""
import hashlib
import os
import re
import sys

from .. import common
from ..common import Case, HELD, INCONCLUSIVE, VIOLATED
from ..gen import CidFactory, rng
from ..rig import Rig
from . import base

PROP = "C09"
LEVEL = "exploration"
TOKEN = "zqESCAPEqz"

_MON = {"jail": None, "root": None, "events": [], "on": False, "installed": False, "count": 0}
_EVENTS = {"open", "os.listdir", "os.scandir", "os.mkdir", "os.rmdir", "os.remove", "os.rename", "os.symlink", "os.utime", "os.chmod", "shutil.rmtree", "sqlite3.connect", "os.truncate", "os.link", "os.chown", "glob.glob"}


def _hook(ev, args):
    m = _MON
    if not m["on"] or ev not in _EVENTS:
        return
    m["count"] += 1
    for a in (args[1:2] if ev == "os.symlink" else args[:2]):  # (a link's content is not a path that is touched)
        if isinstance(a, (str, bytes, os.PathLike)):
            try:
                p = os.fsdecode(a)
                if not os.path.isabs(p):
                    dfd = [x for x in args[1:] if isinstance(x, int) and not isinstance(x, bool) and x >= 0 and ev not in ("open", "os.chmod")]
                    if dfd:
                        p = os.path.join(os.readlink("/proc/self/fd/%d" % dfd[0]), p)
                rp = os.path.realpath(p)
            except Exception:
                continue
            inside = rp == m["root"] or rp.startswith(m["root"] + "/")
            if TOKEN in p and not inside:
                m["events"].append((ev, p))
            elif (rp == m["jail"] or rp.startswith(m["jail"] + "/")) and not (rp == m["root"] or rp.startswith(m["root"] + "/")):
                m["events"].append((ev, rp))


def snapshot(jail, root):
    out = {}
    for dirpath, dirnames, filenames in os.walk(jail):
        if dirpath == root or dirpath.startswith(root + "/"):
            dirnames[:] = []
            continue
        dirnames[:] = [d for d in dirnames if os.path.join(dirpath, d) != root]
        st = os.lstat(dirpath)
        out[dirpath] = ("d", int(st.st_mtime_ns))
        for f in filenames:
            fp = os.path.join(dirpath, f)
            st = os.lstat(fp)
            if os.path.islink(fp):
                out[fp] = ("l", os.readlink(fp))
            else:
                with open(fp, "rb") as fh:
                    out[fp] = ("f", st.st_size, int(st.st_mtime_ns), hashlib.sha256(fh.read()).hexdigest())
    return out


def build_jail(base_dir):
    jail = os.path.join(base_dir, "jail")
    l3 = os.path.join(jail, "l1", "l2", "l3")
    root = os.path.join(l3, "mailroot")
    decoy = os.path.join(l3, "decoy")
    os.makedirs(root)
    for d in (jail, os.path.join(jail, "l1"), os.path.join(jail, "l1", "l2"), l3):
        with open(os.path.join(d, "canary.txt"), "w") as f:
            f.write("CANARY-FILE " + d + "\n")
        os.makedirs(os.path.join(d, "canarydir"), exist_ok=True)
    for folder in ("inbox", "sekrit", "sekrit/deeper"):
        os.makedirs(os.path.join(decoy, folder))
        for i in (1, 2, 3):
            with open(os.path.join(decoy, folder, str(i)), "w") as f:
                f.write(f"From: victim@example.com\nSubject: CANARY-SUBJECT {folder} {i}\nX-CID: CANARYCID{i}\n\nCANARY-BODY secret {i}\n")
        with open(os.path.join(decoy, folder, ".mh_sequences"), "w") as f:
            f.write("unseen: 1-2\n")
    # something outside with the escape token in its absolute path
    os.makedirs(os.path.join(jail, TOKEN, "abs", "inbox"))
    with open(os.path.join(jail, TOKEN, "abs", "inbox", "1"), "w") as f:
        f.write("Subject: CANARY-ABS\n\nCANARY-BODY abs\n")
    return jail, root, decoy


def name_language(jail, root):
    absdec = os.path.join(os.path.dirname(root), "decoy")
    abstok = os.path.join(jail, TOKEN, "abs")
    names = [
        "..", "../..", "../decoy", "../decoy/inbox", "../decoy/sekrit", "../decoy/sekrit/deeper", "../decoy/nonesuch", "a/../../decoy/inbox", "a/b/../../../decoy/inbox",
        "a/b/../../../decoy/nonesuch", "inbox/../../decoy/inbox", "INBOX/../../decoy/sekrit", "../../canarydir", "../../../../..", "./../decoy/inbox", "a/./../../decoy",
        "../mailroot/../decoy/inbox", "/../decoy/inbox", "/a/../../decoy/inbox",
        # absolute paths: absdec/abstok already start with one '/', which is also the
        # namespace prefix the server strips once -- so spell them with one, two
        # and three leading slashes and with '/./'
        absdec + "/inbox", absdec + "/nonesuch", absdec + "/new/deeper", abstok + "/inbox", abstok + "/nonesuch", abstok, absdec,
        "/" + absdec + "/inbox", "/" + absdec + "/nonesuch", "//" + absdec + "/inbox", "//" + absdec + "/nonesuch", "/." + absdec + "/inbox", "/." + absdec + "/nonesuch",
        "/" + abstok + "/inbox", "/" + abstok + "/nonesuch", "/" + abstok,
        "/" + TOKEN + "-top", "/" + TOKEN + "-top/sub", "//" + TOKEN + "-top2",
        "../decoy/", "..//decoy//inbox", "a/../..", ".", "./", "a/..", "a/b/../..", "/", "//", "/.", "/..",
        # white space around traversal components (only expressible quoted or as a literal): a component
        # ' ..' is an ordinary name, unless something trims it after the confinement test
        " ../decoy/inbox", " ../decoy/sekrit", "\t../decoy/inbox", " ../decoy/nonesuch", "../decoy/inbox ", " ..", ".. ", " ../..", "a/ ../../decoy/inbox", " /" + absdec.lstrip("/") + "/inbox",
        " " + absdec + "/inbox", "\t" + abstok + "/inbox", " ../../canarydir", " inbox/../../decoy/inbox",
    ]
    exist_pairs = [(" ../decoy/inbox", " ../decoy/nonesuch"), ("../decoy/inbox", "../decoy/nonesuch"), ("a/b/../../../decoy/inbox", "a/b/../../../decoy/nonesuch"), ("/" + absdec + "/inbox", "/" + absdec + "/nonesuch"),
                   (absdec + "/inbox", absdec + "/nonesuch"), (abstok + "/inbox", abstok + "/nonesuch"),
                   ("/" + abstok + "/inbox", "/" + abstok + "/nonesuch"), ("../decoy/sekrit", "../decoy/sekrix")]
    return names, exist_pairs


def escapes(name, root):
    """Does the name, read as a path below the mail root, leave it?"""
    # two readings of a name with a leading '/': strip the namespace prefix and
    # resolve the rest below the root, or normalise first (POSIX: '/..' is '/')
    # and then strip.  A name is demanded to be refused only when it leaves the
    # root under both; what the server actually touches is decided by the audit
    # and snapshot monitors under either reading.
    n = name[1:] if name.startswith("/") else name
    p = os.path.normpath(os.path.join(root, n))
    a = not (p.startswith(root + "/"))  # the root itself is not a mailbox either
    if not a or not name:
        return a
    nn = os.path.normpath(name)
    if nn.startswith("//"):
        return True
    n2 = nn[1:] if nn.startswith("/") else nn
    p2 = os.path.normpath(os.path.join(root, n2))
    return not (p2.startswith(root + "/"))


def encode(rnd, s, kinds=("atom", "quoted", "literal", "literal+")):
    atom_ok = s != "" and all(33 <= ord(c) < 127 and c not in '(){%*"\\' for c in s)
    k = rnd.choice([x for x in kinds if x != "atom" or atom_ok])
    if k == "atom":
        return s.encode(), k
    if k == "quoted":
        return b'"' + s.replace("\\", "\\\\").replace('"', '\\"').encode() + b'"', k
    return (b"{%d%s}\r\n" % (len(s), b"+" if k == "literal+" else b"")) + s.encode(), k


POSITIONS = ["SELECT", "EXAMINE", "CREATE", "DELETE", "RENAME-src", "RENAME-dst", "SUBSCRIBE", "UNSUBSCRIBE", "STATUS", "APPEND", "COPY", "MOVE", "UID COPY", "LIST-ref", "LIST-pat",
             "LSUB-ref", "LSUB-pat", "LIST-ext", "LIST-status"]


def build_cmd(pos, arg):
    if pos in ("SELECT", "EXAMINE", "CREATE", "DELETE", "SUBSCRIBE", "UNSUBSCRIBE"):
        return pos.encode() + b" " + arg
    if pos == "RENAME-src":
        return b"RENAME " + arg + b" newname"
    if pos == "RENAME-dst":
        return b"RENAME a " + arg
    if pos == "STATUS":
        return b"STATUS " + arg + b" (MESSAGES UIDNEXT UNSEEN RECENT UIDVALIDITY)"
    if pos == "APPEND":
        return b"APPEND " + arg + b" {25+}\r\nSubject: x\r\n\r\nescaping\r\n"
    if pos in ("COPY", "MOVE", "UID COPY"):
        return pos.encode() + b" 1 " + arg
    if pos == "LIST-ref":
        return b"LIST " + arg + b" *"
    if pos == "LIST-pat":
        return b'LIST "" ' + arg
    if pos == "LSUB-ref":
        return b"LSUB " + arg + b" %"
    if pos == "LSUB-pat":
        return b'LSUB "" ' + arg
    if pos == "LIST-ext":
        return b'LIST (SUBSCRIBED) "" (' + arg + b" inbox)"
    if pos == "LIST-status":
        return b'LIST "" ' + arg + b" RETURN (STATUS (MESSAGES UNSEEN))"
    raise ValueError(pos)


LEAK_RE = re.compile(rb"CANARY|sekrit|deeper|victim@", re.I)


async def script(loop, ctx):
    k = ctx["script"]
    rnd = rng(ctx["seed"], "c09", k)
    counts = ctx["counts"]
    jail, root, decoy = build_jail(ctx["dir"])
    _MON.update(jail=os.path.realpath(jail), root=os.path.realpath(root), events=[], on=False, count=0)
    jail, root = _MON["jail"], _MON["root"]
    if not _MON["installed"]:
        sys.addaudithook(_hook)
        _MON["installed"] = True
    names, pairs = name_language(jail, root)
    cases = []
    _MON["on"] = True
    rig = await Rig(root, loop).start()
    try:
        s = rig.session("E")
        # legitimate neighbours so that '..' components cancel
        cids = CidFactory(f"e{k}-")
        for nm in ("a", "a/b", "a/b/c", "other"):
            await s.cmd(f"CREATE {nm}")
        for i in range(3):
            cid, m = cids.make()
            await s.append("inbox", m)
            await s.append("a", m)
        await s.cmd("SUBSCRIBE a")
        await s.cmd("SELECT inbox")
        if _MON["events"]:
            cases.append(Case.make(f"s{k}.setup", VIOLATED, spec=ctx["spec"], nontrivial=True, key="setup", witness={"kind": "outside-path-touched", "detail": f"during start-up/setup: {_MON['events'][:4]}"}))
            _MON["events"].clear()
        snap = snapshot(jail, root)
        ncases = ctx.get("ncases", 70)
        work = []
        # existence pairs first (both members, same position and encoding)
        for pa in pairs:
            pos = rnd.choice([p for p in POSITIONS if not p.startswith("L")])
            enc = rnd.choice(["quoted", "literal", "literal+"])
            work.append((pos, pa[0], enc, ("pair", pa)))
        while len(work) < ncases:
            nm = rnd.choice(names)
            pos = rnd.choice(POSITIONS)
            if pos.startswith("L") and rnd.random() < 0.5:
                nm = rnd.choice(["../*", "%/../%", "../decoy/*", "../%", "*/../../decoy/*", "../decoy/%", "a/../../*", "/" + os.path.dirname(root) + "/*", "../decoy/sekrit/%"])
            work.append((pos, nm, None, None))
        for idx, (pos, nm, enc, extra) in enumerate(work):
            if s.writer.closed or s.wire_error:
                s = rig.session("E")
                await s.cmd("SELECT inbox")
            if pos.startswith("L") and pos.endswith(("pat", "ext", "status")):
                arg, used = encode(rnd, nm, kinds=("quoted", "literal", "literal+") if enc is None else (enc,))
            else:
                arg, used = encode(rnd, nm, kinds=("atom", "quoted", "literal", "literal+") if enc is None else (enc,))
            cmd = build_cmd(pos, arg)
            _MON["events"].clear()
            ev0 = _MON["count"]
            r = await s.cmd(cmd)
            await rig.settle()
            s.pump()
            counts["commands"] += 1
            counts["pos:" + pos] += 1
            counts["enc:" + used] += 1
            problems = []
            esc = escapes(nm, root) or any(ch in nm for ch in "*%") and ".." in nm
            if _MON["events"]:
                problems.append(("outside-path-touched", f"{_MON['events'][:4]}"))
            after = snapshot(jail, root)
            counts["snapshot_diffs"] += 1
            if after != snap:
                diff = sorted(set(after.items()) ^ set(snap.items()))[:4]
                problems.append(("outside-tree-changed", f"{[d[0] for d in diff]}"))
                snap = after
            raw = r.raw or b""
            echoed = raw
            for spelling in sorted({nm, os.path.normpath(nm), nm.lstrip("/"), os.path.normpath(nm).lstrip("/")}, key=len, reverse=True):
                if spelling:
                    echoed = echoed.replace(spelling.encode(), b"<NAME>")
            if LEAK_RE.search(echoed):
                # mailboxes that exist *inside* the mail root (some hostile names normalise to harmless
                # ones, e.g. ' ../../canarydir' is 'canarydir', and CREATE made them) may be listed
                inside = []
                for dp, dns, _ in os.walk(root):
                    for dn in dns:
                        inside.append(os.path.relpath(os.path.join(dp, dn), root))
                for nm_in in sorted(inside, key=len, reverse=True):
                    echoed = echoed.replace(nm_in.encode("latin-1", "replace"), b"<INSIDE>")
            if LEAK_RE.search(echoed):
                problems.append(("leak-in-response", f"{LEAK_RE.search(echoed).group()!r} in {echoed[:200]!r}"))
            is_list = pos.startswith("L")
            if esc and not is_list and r.status == "OK":
                problems.append(("escaping-name-accepted", f"{r.brief()}"))
            if is_list and r.ok:
                for x in r.untagged("LIST") + r.untagged("LSUB") + r.untagged("STATUS"):
                    v = x.data["name"]
                    v = bytes(v).decode("latin-1") if not isinstance(v, str) else str(v)
                    if escapes(v, root) and v not in ("", "/"):
                        problems.append(("listed-name-outside-root", v))
            if r.status not in ("OK", "NO", "BAD"):
                if any(x.kind == "status" and x.status == "BYE" for x in r.responses):
                    # the mailbox this session had selected was renamed/deleted by one of the
                    # (harmless, inside-the-root) commands before: the server says BYE -- a
                    # legal completion; the next case opens a new session
                    counts["bye_selected_mailbox_gone"] += 1
                else:
                    problems.append(("no-tagged-reply", r.status))
            if extra and extra[0] == "pair" and escapes(extra[1][0], root) and escapes(extra[1][1], root):
                arg2, _ = encode(rnd, extra[1][1], kinds=(used,))
                r2 = await s.cmd(build_cmd(pos, arg2))
                counts["existence_pairs"] += 1
                a1 = re.sub(rb"^\S+ ", b"", (r.tagged.raw if r.tagged else b"")).replace(extra[1][0].encode(), b"<N>").replace(os.path.normpath(extra[1][0]).encode(), b"<N>")
                a2 = re.sub(rb"^\S+ ", b"", (r2.tagged.raw if r2.tagged else b"")).replace(extra[1][1].encode(), b"<N>").replace(os.path.normpath(extra[1][1]).encode(), b"<N>")
                u1 = [x.raw for x in r.responses if x.kind != "tagged"]
                u2 = [x.raw for x in r2.responses if x.kind != "tagged"]
                if a1 != a2 or len(u1) != len(u2):
                    problems.append(("existence-oracle", f"{pos}: existing target -> {a1[:100]!r} ({len(u1)} untagged); missing target -> {a2[:100]!r} ({len(u2)} untagged)"))
                snap = snapshot(jail, root)
            cid = f"s{k}.{idx}"
            sample = {"position": pos, "name": nm, "encoding": used, "reply": r.status}
            key = common.h([pos, nm, used])
            if problems:
                cases.append(Case.make(cid, VIOLATED, spec=ctx["spec"], nontrivial=esc, key=key, sample=sample,
                                       witness={"kind": problems[0][0], "detail": problems[0][1], "all": [p[0] for p in problems], "position": pos, "name": nm, "encoding": used, "reply": r.brief(),
                                                "transcript": s.log[-8:], "server_log": [x[2][:200] for x in rig.log_records[-4:]]}))
            else:
                if esc and not is_list:
                    counts["escaping_refused"] += 1
                elif not esc and r.status == "OK":
                    counts["harmless_accepted"] += 1
                cases.append(Case.make(cid, HELD, spec=ctx["spec"], nontrivial=esc, key=key, sample=sample))
        # ---- what a RENAME that failed half-way leaves behind.  The user's own folders are named like the neighbour's
        # path (plain names, nothing a name check could object to); an inferior's directory has disappeared behind the
        # server's back, so RENAME gives up after its first steps; later RENAMEs move whatever it left to other levels of
        # the tree.  Whatever those names are then used for, nothing outside the mail root may be read or written.
        import shutil

        if s.writer.closed or s.wire_error:
            s = rig.session("E")
        neighbour = os.path.basename(decoy)
        for c_ in (f"CREATE {neighbour}", f"CREATE {neighbour}/inbox", f"CREATE {neighbour}/inbox/kid", f"CREATE {neighbour}/sekrit", f"CREATE {neighbour}/sekrit/kid", "CREATE tmp", "CREATE tmp/deep"):
            await s.cmd(c_)
        for victim in ("inbox", "sekrit"):
            shutil.rmtree(os.path.join(root, neighbour, victim, "kid"), ignore_errors=True)
        snap = snapshot(jail, root)
        _MON["events"].clear()
        steps = [f"RENAME {neighbour}/inbox tmp/inbox", "RENAME tmp/inbox z1", f"RENAME {neighbour}/sekrit tmp/deep/sekrit", "RENAME tmp/deep/sekrit tmp/z2", "RENAME tmp/z2 z3", "RENAME tmp z4"]
        uses = []
        for nm_ in ("z1", "z3", "tmp/inbox", "tmp/z2", "tmp/deep/sekrit", "z4/inbox", "z4/z2", "z4/deep/sekrit"):
            uses += [f"STATUS {nm_} (MESSAGES UNSEEN)", f"SELECT {nm_}", "FETCH 1:* (FLAGS BODY.PEEK[])", "STORE 1 +FLAGS (\\Deleted)", "EXPUNGE", f"APPEND {nm_} {{3+}}\r\nx\r\n", "UNSELECT", f"DELETE {nm_}"]
        uses += ['LIST "" *', 'LSUB "" *']
        leftovers = 0
        trail = []
        for cmd in steps + uses:
            if s.writer.closed or s.wire_error:
                s = rig.session("E")
            r = await s.cmd(cmd)
            await rig.settle()
            s.pump()
            counts["leftover_link_commands"] += 1
            trail.append(f"{cmd[:40]} -> {r.status}")
            problems = []
            if _MON["events"]:
                problems.append(("outside-path-touched", f"{cmd}: {_MON['events'][:4]}"))
                _MON["events"].clear()
            after = snapshot(jail, root)
            _MON["events"].clear()  # (the snapshot's own reads)
            if after != snap:
                diff = sorted(set(after.items()) ^ set(snap.items()))[:4]
                problems.append(("outside-tree-changed", f"{cmd}: {[d[0] for d in diff]}"))
                snap = after
            raw = (r.raw or b"").replace(neighbour.encode(), b"<OWN>")
            if re.search(rb"CANARY|sekrit/deeper", raw):
                problems.append(("leak-in-response", f"{cmd}: {raw[:200]!r}"))
            if problems:
                cases.append(Case.make(f"s{k}.leftover", VIOLATED, spec=ctx["spec"], nontrivial=True, key=common.h(["leftover", cmd]), sample={"position": "leftover-link", "name": cmd, "encoding": "atom", "reply": r.status},
                                       witness={"kind": problems[0][0], "detail": problems[0][1], "all": [p[0] for p in problems], "position": "leftover-link", "name": cmd, "encoding": "atom", "reply": r.brief(),
                                                "transcript": s.log[-8:], "server_log": [x[2][:200] for x in rig.log_records[-4:]]}))
                break
        else:
            cases.append(Case.make(f"s{k}.leftover", HELD, spec=ctx["spec"], nontrivial=True, key=common.h(["leftover", k]), sample={"position": "leftover-link", "name": "what a failed RENAME leaves behind", "encoding": "atom", "reply": trail[:12]}))
        for dp, dns, fns in os.walk(root):
            leftovers += sum(1 for x in dns + fns if os.path.islink(os.path.join(dp, x)))
        counts["leftover_links_found_in_the_mail_root"] += leftovers
        counts["audit_events_seen"] += _MON["count"]
    finally:
        try:
            await rig.stop()
        except Exception:
            counts["stop_failed"] += 1
        _MON["on"] = False
    return cases


def plan(tier, seed, scale):
    return base.plan_scripts(PROP, tier, seed, scale, quick=32, thorough=640, extra={"ncases": 60})


def run_shard(spec):
    return base.run_scripts(spec, script, user_kwargs={"ncases": spec.get("ncases", 60)})


def replay_specs(rp):
    return base.replay_specs_from(rp)


def classify(w):
    return None


def finish(tier, seed, cases, results, errors, wall):
    counts = common.merge_counts(results)
    return common.finish(
        PROP, tier, seed, LEVEL, cases, wall=wall, errors=errors, classify=classify,
        rule=("one case = one command with a hostile name in one mailbox-name position (SELECT, EXAMINE, CREATE, DELETE, RENAME source/destination, SUBSCRIBE, "
              "UNSUBSCRIBE, STATUS, APPEND, COPY/MOVE/UID COPY destination, LIST/LSUB reference and pattern, LIST-EXTENDED pattern list, LIST-STATUS) x name language "
              "('..' chains that cancel through legitimate neighbours, absolute and doubled-slash paths to a decoy mail root, '.', wildcards) x encoding (atom, quoted, "
              "literal, literal+), on a server whose mail root sits three levels deep in a jail with canary files and a decoy user's mail beside it; non-trivial = the "
              "name's normal form leaves the mail root; distinct = (position, name, encoding)"),
        monitor_counts=dict(counts),
        floors={"commands": 800, "snapshot_diffs": 800, "audit_events_seen": 5000, "existence_pairs": 60, "escaping_refused": 200},
        assumptions=["os.stat is not an audited event: existence probing is covered by the response differential between existing and missing outside targets",
                     "runs inside a mount-namespace jail (when unshare is permitted) and under an audit guard that refuses writes outside the scratch directory"],
    )
