"""C05 -- only the addressed messages are removed, copied or moved.
Monitor: conservation over content identities: the observer snapshots every
mailbox after every command and the model predicts the exact difference; a
refused command and an EXAMINE session change nothing."""
from .hist_base import HistProp, module_api

PROP = "C05"


async def sk_uid_expunge_sparse(hp, w, rnd, ctx):
    """UID EXPUNGE in a mailbox whose UIDs are not 1..N."""
    a = w.session()
    for i in range(6):
        await w.op_append(a, "INBOX")
    await w.op_select(a, "INBOX")
    await w.op_store(a, [1, 2], "add", ["\\Deleted"])
    await w.op_expunge(a)
    await w.observe()
    us = [m.uid for m in w.boxes["INBOX"].msgs]
    await w.op_store(a, us[:3], "add", ["\\Deleted"], uid_mode=True)
    await w.op_expunge(a, uids=[us[1]])
    await w.observe()
    await w.op_expunge(a, uids=[us[-1] + 10])  # names nothing
    await w.observe()
    await w.op_expunge(a, uids=[us[3]])  # exists but not \Deleted
    await w.observe()


async def sk_examine_session(hp, w, rnd, ctx):
    a = w.session()
    for i in range(4):
        await w.op_append(a, "INBOX", flags=rnd.choice([None, ["\\Deleted"]]))
    e = w.session()
    await w.op_create(a, "other")
    await w.op_select(e, "INBOX", examine=True)
    await w.observe()
    await w.op_store(e, [1], "add", ["\\Deleted", "\\Flagged"])
    await w.observe()
    await w.op_fetch(e, [2], "UID BODY[]", sets_seen=True)
    await w.observe()
    await w.op_expunge(e)
    await w.observe()
    await w.op_copy(e, [1, 2], "other", move=True)
    await w.observe()
    await w.op_copy(e, [1, 2], "other")
    await w.observe()
    await w.op_unselect(e, close=True)
    await w.observe()


async def sk_copy_same_mailbox_and_missing(hp, w, rnd, ctx):
    a = w.session()
    await w.op_create(a, "other")
    for i in range(5):
        await w.op_append(a, "INBOX", flags=rnd.choice([None, ["\\Seen", "kw1"], ["\\Flagged"]]), date=rnd.choice([None, "02-Feb-2019 01:02:03 +0100"]))
    await w.op_select(a, "INBOX")
    await w.observe()
    await w.op_copy(a, [2, 4], "INBOX")
    await w.observe()
    await w.op_copy(a, [1], "nosuchbox")
    await w.observe()
    us = [m.uid for m in w.boxes["INBOX"].msgs]
    await w.op_copy(a, [us[0], us[2], us[-1] + 3], "other", uid_mode=True)
    await w.observe()
    await w.op_copy(a, [1, 3], "INBOX", move=True)
    await w.observe()
    await w.op_copy(a, [us[1]], "other", uid_mode=True, move=True)
    await w.observe()


async def sk_placeholder_destination(hp, w, rnd, ctx):
    """APPEND/COPY/MOVE into a \\Noselect placeholder are refused and put
    nothing anywhere."""
    a = w.session()
    await w.op_create(a, "ph/child")
    for i in range(3):
        await w.op_append(a, "INBOX", flags=rnd.choice([None, ["\\Seen"]]))
        await w.op_append(a, "ph", flags=[["\\Deleted"], ["\\Deleted", "\\Flagged"], ["kw1"]][i])
    await w.op_delete(a, "ph")  # keeps a placeholder because of ph/child
    await w.observe()
    await w.op_select(a, "INBOX")
    await w.op_copy(a, [1, 2], "ph")
    await w.observe()
    await w.op_copy(a, [3], "ph", move=True)
    await w.observe()
    us = [m.uid for m in w.boxes["INBOX"].msgs]
    await w.op_copy(a, us[:2], "ph", uid_mode=True, move=True)
    await w.observe()
    await w.op_append(a, "ph")
    await w.observe()
    # the placeholder is created again: it is a new, empty mailbox -- what is put
    # in to it does not inherit anything from the messages that were deleted with it
    await w.op_create(a, "ph")
    w.no_probe = True
    try:
        await w.op_append(a, "ph", flags=["\\Seen"])
        await w.op_append(a, "ph")
        await w.op_select(a, "ph")
        await w.op_expunge(a)
    finally:
        w.no_probe = False
    await w.observe()


async def sk_move_naming_nothing(hp, w, rnd, ctx):
    """UID MOVE / UID COPY / UID EXPUNGE whose set names no existing message,
    while other messages are flagged \\Deleted: nothing is removed."""
    a, b2 = w.session(), w.session()
    await w.op_create(a, "other")
    for i in range(7):
        await w.op_append(a, "INBOX", flags=rnd.choice([None, ["\\Seen"]]))
    await w.op_select(a, "INBOX")
    await w.op_select(b2, "INBOX")
    us = [m.uid for m in w.boxes["INBOX"].msgs]
    await w.op_store(a, [us[4], us[5]], "add", ["\\Deleted"], uid_mode=True)
    await w.op_store(b2, [us[1]], "add", ["\\Deleted"], uid_mode=True)
    await w.op_expunge(b2, uids=[us[1]])
    await w.observe()
    await w.op_copy(a, [us[1]], "other", uid_mode=True, move=True)  # session a still believes it exists
    await w.observe()
    await w.op_copy(a, [us[-1] + 100, us[-1] + 105], "other", uid_mode=True, move=True)
    await w.observe()
    await w.op_copy(a, [us[-1] + 100], "other", uid_mode=True)
    await w.observe()
    await w.op_noop(a)
    await w.op_noop(b2)
    await w.observe()


async def sk_rename_inbox_then_arrivals(hp, w, rnd, ctx):
    """RENAME INBOX empties INBOX; what arrives afterwards reuses the message
    numbers of messages that were flagged \\Deleted: an EXPUNGE must not
    take the newcomers."""
    a, b2 = w.session(), w.session()
    for i in range(5):
        await w.op_append(a, "INBOX", flags=rnd.choice([None, ["\\Seen"]]))
    await w.op_select(a, "INBOX")
    await w.op_store(a, [1, 2], "add", ["\\Deleted", "\\Flagged"])
    await w.op_store(a, [4], "add", ["\\Deleted"])
    await w.op_rename(a, "INBOX", "saved")
    # (no flag probing in between: what this check is about is what the EXPUNGE takes)
    w.no_probe = True
    try:
        await w.op_append(b2, "INBOX", flags=["\\Seen"])
        await w.op_append(b2, "INBOX")
        w.deliver("INBOX", 2, unseen=[True, False])
        await w.rig.advance(6)
        await w.op_select(b2, "INBOX")
        await w.op_expunge(b2)
    finally:
        w.no_probe = False
    await w.observe()
    await w.op_select(a, "saved")
    await w.op_expunge(a)
    await w.observe()


async def sk_pop3_quit_after_imap_expunge(hp, w, rnd, ctx):
    """A POP3 session marks messages; an IMAP session expunges a lower-numbered
    one in between; QUIT then removes exactly the marked messages (the ones that
    had those numbers when the POP3 session began) and nothing else."""
    a = w.session()
    for i in range(6):
        await w.op_append(a, "INBOX", flags=rnd.choice([None, ["\\Seen"]]))
    await w.op_select(a, "INBOX")
    await w.observe()
    b = w.boxes["INBOX"]
    p = w.rig.pop3("P")
    await p.cmd("STAT")
    await p.cmd("UIDL")
    snapshot = list(b.msgs)
    await w.op_store(a, [2], "add", ["\\Deleted"])
    await w.op_expunge(a)
    await w.observe()
    marked = [snapshot[3], snapshot[4]]  # POP3 numbers 4 and 5
    for n in (4, 5):
        rep = await p.cmd(f"DELE {n}")
        w.note(f"POP3: DELE {n} -> {rep.line if rep else None}")
    rep = await p.cmd("QUIT")
    w.note(f"POP3: QUIT -> {rep.line if rep else None}")
    await w.rig.settle()
    w._remove(b, [m for m in marked if m in b.msgs], None)
    w.stats["pop3_quit_scenarios"] += 1
    await w.op_noop(a)
    await w.observe()


async def sk_inbox_named_by_other_spellings(hp, w, rnd, ctx):
    """DELETE (and RENAME on to) INBOX written in spellings that the server's
    own name normalisation turns into INBOX: refused, and no message of INBOX
    or of the source mailbox goes anywhere."""
    a, b2 = w.session(), w.session()
    await w.op_create(a, "work")
    for i in range(4):
        await w.op_append(a, "INBOX", flags=rnd.choice([None, ["\\Seen"], ["\\Deleted"]]))
    for i in range(2):
        await w.op_append(a, "work")
    await w.op_select(b2, "INBOX")
    await w.observe()
    for sp in ["INBOX/", "/INBOX", "./Inbox", '"INBOX/"', "x/../INBOX", "/inbox/", "InBoX//"]:
        for text in (f"DELETE {sp}", f"RENAME work {sp}"):
            r = await w._cmd(a, text)
            w.stats["inbox_spelling_cmds"] += 1
            if r.ok:
                w.viol(["C05", "C17"], "inbox-removed-or-replaced-through-another-spelling", f"{text} -> {r.brief()}")
                return
            await w.rig.settle()
            if a.s.writer.closed:
                a = w.session()
        if b2.s.writer.closed:
            b2 = w.session()
            await w.op_select(b2, "INBOX")
        else:
            await w.op_noop(b2)
        await w.observe()
    await w.op_select(a, "INBOX")
    await w.op_expunge(a)
    await w.observe()


async def sk_two_digit_numbers_across_a_restart(hp, w, rnd, ctx):
    """Mailboxes whose message numbers and UIDs run into two digits and do not
    start at 1 (the first message is gone), some flagged \\Deleted; an orderly
    restart; then UID EXPUNGE / EXPUNGE / MOVE: they take the messages addressed,
    as if the restart had not happened."""
    # (UIDs that changed over the restart are other properties' witnesses; what is asked here is what gets removed)
    w.foreign_violations = []
    w.continue_past_foreign = ["C05"]
    a = w.session()
    await w.op_create(a, "other")
    for i in range(13):
        await w.op_append(a, "INBOX", flags=rnd.choice([None, ["\\Seen"]]))
    for i in range(11):
        await w.op_append(a, "other", flags=rnd.choice([None, ["\\Seen"], ["kw1"]]))
    await w.op_select(a, "INBOX")
    await w.op_store(a, [1], "add", ["\\Deleted"])
    await w.op_expunge(a)
    await w.op_store(a, [3, 4, 5, 6, 7, 8, 9, 10, 11, 12], "add", ["\\Deleted"], silent=True)
    await w.op_store(a, [4, 9], "remove", ["\\Deleted"])
    await w.op_select(a, "other")
    await w.op_store(a, [1, 2], "add", ["\\Deleted"])
    await w.op_expunge(a)
    await w.observe()
    await w.restart()
    a, b2 = w.session(), w.session()
    await w.observe()
    await w.op_select(a, "INBOX")
    await w.op_select(b2, "INBOX")
    us = [m.uid for m in w.boxes["INBOX"].msgs if m.uid is not None]
    await w.op_expunge(a, uids=[us[-1], us[2]])
    await w.observe()
    await w.op_noop(b2)
    await w.op_copy(b2, [us[0], us[3]], "other", uid_mode=True, move=True)
    await w.observe()
    await w.op_expunge(a)
    await w.observe()
    await w.op_select(a, "other")
    await w.op_store(a, [9], "add", ["\\Deleted"])
    await w.op_expunge(a)
    await w.observe()


async def sk_expunge_after_a_pack(hp, w, rnd, ctx):
    """A lower block of messages is expunged so that the folder qualifies for
    packing (threshold lowered for this script); single messages further up are
    flagged \\Deleted; idle time lets the management task pack (the files are
    renumbered); EXPUNGE / UID EXPUNGE / CLOSE then remove exactly the flagged
    messages, and MOVE/COPY take the ones addressed."""
    a, b2 = w.session(), w.session()
    await w.op_create(a, "other")
    for i in range(14):
        await w.op_append(a, "INBOX", flags=rnd.choice([None, ["\\Seen"], ["kw1"]]))
    await w.op_select(a, "INBOX")
    await w.op_select(b2, "INBOX")
    await w.op_store(a, [1, 2, 3, 4, 6], "add", ["\\Deleted"])
    await w.op_expunge(a)
    await w.op_noop(b2)
    await w.observe()
    await w.op_store(a, [3, 7], "add", ["\\Deleted"])
    await w.op_store(b2, [5], "add", ["\\Flagged"])
    for _ in range(6):
        await w.rig.advance(5)  # idle: the management task may pack now
    await w.op_noop(b2)
    await w.op_expunge(a)
    await w.op_noop(b2)
    await w.observe()
    us = [m.uid for m in w.boxes["INBOX"].msgs if m.uid is not None]
    if len(us) >= 6:
        await w.op_store(b2, [us[1], us[4]], "add", ["\\Deleted"], uid_mode=True)
        await w.op_expunge(b2, uids=[us[4]])
        await w.observe()
        await w.op_copy(a, [us[0], us[2]], "other", uid_mode=True, move=True)
        await w.observe()
    await w.op_unselect(b2, close=True)
    await w.observe()


class C05(HistProp):
    prop = PROP
    pack_limits = [100, 100, 100, 100, 6, 100, 100, 4, 100, 100]
    names = ["INBOX", "other"]
    skeletons = [sk_uid_expunge_sparse, sk_examine_session, sk_copy_same_mailbox_and_missing, sk_placeholder_destination, sk_move_naming_nothing, sk_rename_inbox_then_arrivals, sk_pop3_quit_after_imap_expunge, sk_expunge_after_a_pack, sk_inbox_named_by_other_spellings, sk_two_digit_numbers_across_a_restart]
    weights = {"append": 9, "store_del": 10, "store": 4, "uid_store": 3, "expunge": 8, "uid_expunge": 7, "copy": 7, "uid_copy": 5, "move": 6, "uid_move": 4,
               "close": 4, "examine": 4, "fetch_body": 3, "deliver": 2, "noop": 4, "idle": 1, "advance": 2}
    opts = {"examine_prob": 0.3}
    observer_cadence = [1]
    initial = (2, 8)

    def nontrivial(self, w):
        s = w.stats
        return (s["expunge_proper_subset"] + s["copy_proper_subset"] + s["copy_refused"] + s["examine_store_refused"]) >= 1 and s["observations"] >= 5


hp = C05()
plan, run_shard, replay_specs, finish = module_api(
    hp, quick=128, thorough=6000,
    rule=("one case = one multi-session history (some sessions in EXAMINE) of EXPUNGE/UID EXPUNGE/CLOSE/COPY/MOVE/APPEND/STORE with arbitrary \\Deleted "
          "subsets, partly non-existent UID sets, same-mailbox and missing destinations; the observer compares every mailbox with the model after "
          "every command; non-trivial = some command addressed a proper non-empty subset of a mailbox or was refused; distinct = hash of the "
          "operation sequence with numbers abstracted"),
    floors={"observations": 500, "expunged_msgs": 30, "copied_msgs": 30, "observer_msgs_compared": 2000},
)


# ---------------------------------------------------------------- scheduled tier
# COPY / MOVE / EXPUNGE from several sessions at once under the deterministic
# scheduler: the messages each command took or left, and the final contents of
# both mailboxes, must be those of some sequential order (the comparison is
# C10's: sequential runs of the same server, COPY/MOVE step-split).  Reported
# here because what it decides for these sets is conservation: exactly the
# addressed messages are copied, moved or removed.
SCHED_SETS = [
    [("#", ["nodeleted"]), ("INBOX", ["UID MOVE 1 other"]), ("INBOX", ["UID COPY 1:5 other"])],
    [("#", ["nodeleted"]), ("INBOX", ["UID MOVE 2:3 other"]), ("INBOX", ["UID COPY 1:5 other"]), ("INBOX", ["UID COPY 4:5 other"])],
    [("#", ["nodeleted"]), ("INBOX", ["UID MOVE 1,4 other"]), ("other", ["UID MOVE 1:2 INBOX"]), ("INBOX", ["UID COPY 2:5 other"])],
    [("INBOX", ["UID MOVE 1:2 other"]), ("INBOX", ["EXPUNGE"]), ("INBOX", ["UID COPY 3:5 other"])],
    [("INBOX", ["UID EXPUNGE 2"]), ("INBOX", ["UID MOVE 3:5 other"]), ("other", ["UID COPY 1:3 INBOX"])],
    [("pop3", ["DELE 3", "QUIT"]), ("INBOX", ["UID MOVE 1:2 other"]), ("INBOX", ["UID COPY 3:5 other"])],
]

_plan_hist, _run_hist = plan, run_shard


def run_sched_shard(spec):
    from collections import Counter

    from ..common import Case, INCONCLUSIVE
    from ..gen import rng
    from . import c10

    counts = Counter()
    cases = []
    for k in spec["scripts"]:
        rnd = rng(spec["seed"], "c05sched", k)
        if k < len(SCHED_SETS):
            cmdset = SCHED_SETS[k]
        else:
            movers = [f"UID MOVE {rnd.randint(1, 3)}:{rnd.randint(3, 5)} other", f"UID MOVE {rnd.randint(1, 5)} other", "UID MOVE 1:* other"]
            copiers = [f"UID COPY {rnd.randint(1, 2)}:{rnd.randint(3, 5)} other", "UID COPY 1:* other", f"UID COPY {rnd.randint(1, 5)} INBOX"]
            removers = ["EXPUNGE", "UID EXPUNGE 2", "UID EXPUNGE 4"]
            cmdset = [("INBOX", [rnd.choice(movers)]), ("INBOX", [rnd.choice(copiers)])]
            if rnd.random() < 0.5:
                cmdset.append(("INBOX", [rnd.choice(removers + copiers)]))
            if rnd.random() < 0.5:
                cmdset.insert(0, ("#", ["nodeleted"]))
            rnd.shuffle(cmdset)
        cmdset = [(w, list(c)) for w, c in cmdset]
        try:
            got = c10.explore(spec, 100000 + k, cmdset, counts, spec["scratch"], spec.get("nsched", 8), spec.get("systematic", 6))
        except Exception:
            import traceback

            got = [Case.make(f"sched{k}", INCONCLUSIVE, spec=dict(spec, scripts=[k]), reason="harness exception: " + traceback.format_exc()[-400:])]
        for c in got:
            c["id"] = f"sched{k}"
            c["spec"] = dict(spec, scripts=[k])
        cases += got
    return {"cases": cases, "counts": {("sched_" + a if not a.startswith("sched") else a): b for a, b in counts.items()}}


def plan(tier, seed, scale):
    specs = _plan_hist(tier, seed, scale)
    n = int((24 if tier == "quick" else 400) * scale)
    shards = 8 if tier == "quick" else 16
    for s in range(shards):
        specs.append({"prop": PROP, "tier": tier, "seed": seed, "shard": 100 + s, "mode": "sched", "scripts": list(range(n))[s::shards], "nsched": 8 if tier == "quick" else 25, "systematic": 6 if tier == "quick" else 40})
    return specs


def run_shard(spec):
    if spec.get("mode") == "sched":
        return run_sched_shard(spec)
    return _run_hist(spec)
