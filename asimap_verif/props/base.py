"""Helpers shared by property modules: planning shards of seeded scripts and
running each script on a fresh rig under the virtual loop."""
import os
import shutil
import tempfile
import time
import traceback
from collections import Counter

from .. import common
from ..common import Case, HELD, INCONCLUSIVE, VIOLATED
from ..rig import Rig, guard_violations, run_case
from ..vloop import WallWatchdog


def plan_scripts(prop, tier, seed, scale, quick, thorough, shards=16, extra=None):
    n = int((quick if tier == "quick" else thorough) * scale)
    n = max(n, 2)
    shards = min(shards, n)
    ids = list(range(n))
    specs = []
    for s in range(shards):
        mine = ids[s::shards]
        sp = {"prop": prop, "tier": tier, "seed": seed, "shard": s, "scripts": mine}
        if extra:
            sp.update(extra)
        specs.append(sp)
    return specs


def replay_specs_from(rp):
    c = rp["case"]
    sp = dict(c["spec"])
    return [sp]


def run_scripts(spec, script_fn, scheduled=False, wall_budget=90.0, user_kwargs=None):
    """script_fn(rig_factory, ctx) -> list[Case]; ctx carries seed/script id.

    rig_factory() creates a Rig in a fresh directory under the scratch."""
    cases = []
    counts = Counter()
    scratch = spec.get("scratch") or tempfile.mkdtemp(prefix="asimap-verif-s.")
    t_start = time.monotonic()
    for k in spec["scripts"]:
        d = tempfile.mkdtemp(prefix="m", dir=scratch)
        ctx = {"seed": spec["seed"], "script": k, "tier": spec["tier"], "dir": d, "spec": {**{kk: vv for kk, vv in spec.items() if kk not in ("scripts", "scratch", "shard")}, "scripts": [k]},
               "counts": counts}
        if user_kwargs:
            ctx.update(user_kwargs)

        async def main(loop, ctx=ctx):
            return await script_fn(loop, ctx)

        try:
            got = run_case(main, seed=common.subseed(spec["seed"], k) & 0xFFFFFFF, scheduled=scheduled, wall_budget=wall_budget)
            cases.extend(got)
        except WallWatchdog as e:
            cases.append(Case.make(f"s{k}", INCONCLUSIVE, spec=ctx["spec"], reason="wall watchdog: %s" % e))
        except Exception:
            cases.append(Case.make(f"s{k}", INCONCLUSIVE, spec=ctx["spec"], reason="harness exception: " + traceback.format_exc()[-600:]))
        finally:
            shutil.rmtree(d, ignore_errors=True)
    gv = guard_violations()
    if gv:
        counts["guard_violations"] += len(gv)
    return {"cases": cases, "counts": dict(counts), "guard": gv[:20], "wall": time.monotonic() - t_start}
