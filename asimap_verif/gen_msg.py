"""Generator of RFC 5322 / MIME messages for C07 and C16.

Every message carries a unique X-CID header and body token.  A generated
message is described by a dict:
    raw      bytes as delivered (file) / appended
    klass    set of structural classes it belongs to
    headers  list of (name, unfolded raw value bytes) in order
    hostile  True if a header value / parameter contains a character that needs
             quoting (DQUOTE, backslash) or 8-bit / encoded words
"""
import base64
import quopri
import random

SUBJECT_POOL = [
    "plain subject",
    'has "double quotes" inside',
    "back\\slash and \\\" both",
    "trailing backslash \\",
    "=?utf-8?q?caf=C3=A9_au_lait?=",
    "=?iso-8859-1?b?Z3L832U=?= and ascii",
    "(parens) [brackets] {braces} {12}",
    "percent % star * wild",
    "tab\there",
    "x" * 120,
    "a very long subject " + "word " * 40,
    "",
    # encoded words whose text lies outside latin-1 (the server has to re-encode
    # them) and contains characters that need escaping inside a quoted string
    "=?utf-8?b?" + base64.b64encode('\u041f\u0440\u0438\u0432\u0435\u0442 "\u043c\u0438\u0440" c:\\dir'.encode("utf-8")).decode() + "?=",
    "=?utf-8?b?" + base64.b64encode("\u65e5\u672c\u8a9e \\ \u30c6\u30b9\u30c8".encode("utf-8")).decode() + "?=",
    "=?utf-8?q?=E2=82=AC_100_=22quoted=22?= and ascii tail",
    "=?utf-8?b?" + base64.b64encode("\u0394\u03bf\u03ba\u03b9\u03bc\u03ae plain".encode("utf-8")).decode() + "?=",
    # decoded text with characters that str.splitlines() treats as line ends (the stdlib header encoder splits on
    # them and joins with LF): Unicode line/paragraph separators, NEL, VT, FF, FS/GS/RS -- beside non-latin-1 text
    "=?utf-8?b?" + base64.b64encode("Meeting notes\u2028Tuesday \u2014 room 4".encode("utf-8")).decode() + "?=",
    "=?utf-8?b?" + base64.b64encode("\u041f\u043b\u0430\u043d\u2029part two\x0bthree\x0cfour".encode("utf-8")).decode() + "?=",
    "=?utf-8?b?" + base64.b64encode("\u20ac rates\x85next\x1cA\x1dB\x1eC".encode("utf-8")).decode() + "?=",
    "=?iso-8859-1?q?caf=E9=85next_line?=",
]
NAME_POOL = ["Alice Example", '"Quoted, Name"', "Back\\\\slash", '"With \\"inner\\" quotes"', "=?utf-8?q?J=C3=BCrgen?=", "", "O'Brien (comment)", "=?utf-8?b?" + base64.b64encode('\u0418\u0432\u0430\u043d "\u0412\u0430\u043d\u044f" \u041f'.encode("utf-8")).decode() + "?=",
             "=?utf-8?b?" + base64.b64encode("\u5c71\u7530\u2028\u592a\u90ce".encode("utf-8")).decode() + "?="]
ADDR_POOL = ["alice@example.com", "bob.smith@sub.example.org", "weird+tag@example.net", "local-only", "<>"]


def _addr(rnd):
    n = rnd.choice(NAME_POOL)
    a = rnd.choice(ADDR_POOL[:3])
    return f"{n} <{a}>" if n else a


def _fold(rnd, name, value):
    """Optionally fold a header at a space."""
    line = f"{name}: {value}"
    if rnd.random() < 0.3 and " " in value[5:]:
        idx = value.index(" ", 5)
        return f"{name}: {value[:idx]}\r\n {value[idx + 1:]}" if value[idx + 1:].strip() else line
    return line


def text_part(rnd, cid, kind=None):
    kind = kind or rnd.choice(["7bit", "7bit", "qp", "b64", "8bit", "dots", "long", "blank", "oddtype"])
    if kind == "oddtype":
        # media types and parameters with characters that need escaping in a quoted string
        ct = rnd.choice(['text/pl"ain', 'te\\xt/plain', 'application/x-"quoted"', 'text/plain; charset="us\\"ascii"', 'x-a(b/c)d', 'text/x y'])
        return [f"Content-Type: {ct}", rnd.choice(["Content-Disposition: att\"ach; filename=x", 'Content-Transfer-Encoding: 7"bit', "Content-Language: e\"n"])], f"odd type {cid}\r\n".encode()
    if kind == "blank":
        # bodies made of line ends only: one empty line, two, a space line
        return ["Content-Type: text/plain; charset=us-ascii"], rnd.choice([b"\r\n", b"\r\n\r\n", b" \r\n", b"\r\n\r\n\r\n"])
    if kind == "7bit":
        body = "".join(f"line {i} of {cid}\r\n" for i in range(rnd.randint(1, 5)))
        return ["Content-Type: text/plain; charset=us-ascii"], body.encode()
    if kind == "dots":
        body = f".leading dot {cid}\r\n..two dots\r\n.\r\nafter lone dot\r\n"
        return ["Content-Type: text/plain"], body.encode()
    if kind == "long":
        body = ("x" * 1200 + f" {cid}\r\n") * 2
        return ["Content-Type: text/plain; charset=us-ascii"], body.encode()
    if kind == "qp":
        raw = f"caf\xe9 {cid} = equals\r\nsecond line\r\n".encode("latin-1")
        return ["Content-Type: text/plain; charset=iso-8859-1", "Content-Transfer-Encoding: quoted-printable"], quopri.encodestring(raw).replace(b"\n", b"\r\n").replace(b"\r\r\n", b"\r\n")
    if kind == "b64":
        raw = f"binary-ish {cid} \x00\x01\x02".encode("latin-1") * 3
        return ['Content-Type: application/octet-stream; name="file \\"q\\".bin"', "Content-Transfer-Encoding: base64", 'Content-Disposition: attachment; filename="a\\\\b.bin"'], base64.encodebytes(raw).replace(b"\n", b"\r\n")
    # 8bit
    raw = f"8-bit body \xe9\xe8\xfc {cid}\r\nmore \xa9\r\n".encode("latin-1")
    return ["Content-Type: text/plain; charset=iso-8859-1", "Content-Transfer-Encoding: 8bit"], raw


def make_message(rnd, cid, force=None):
    """Returns dict(raw, klass, headers, hostile, cid)."""
    klass = set()
    shape = force or rnd.choice(["simple", "simple", "multipart", "nested", "rfc822", "nested822", "empty", "headeronly", "nofinalnl", "lf", "mixedeol", "alt"])
    klass.add(shape)
    subject = rnd.choice(SUBJECT_POOL)
    hdrs = []
    hostile = False
    if rnd.random() < 0.9:
        hdrs.append(("From", _addr(rnd)))
    if rnd.random() < 0.9:
        hdrs.append(("To", ", ".join(_addr(rnd) for _ in range(rnd.randint(1, 3)))))
    if rnd.random() < 0.3:
        hdrs.append(("Cc", _addr(rnd)))
    if rnd.random() < 0.85:
        hdrs.append(("Subject", subject))
    if rnd.random() < 0.9:
        hdrs.append(("Date", rnd.choice(["Mon, 01 Jan 2024 10:00:00 +0000", "Tue, 29 Feb 2000 23:59:59 -0800", "1 Jan 2024 10:00 +0000"])))
    hdrs.append(("Message-ID", f"<{cid}@verif.example>"))
    if rnd.random() < 0.3:
        hdrs.append(("In-Reply-To", f'<parent."q"\\@verif.example>' if rnd.random() < 0.3 else "<parent@verif.example>"))
    if rnd.random() < 0.2:
        hdrs.append(("X-Raw8bit", "caf\xe9 raw"))
        klass.add("raw8bit-header")
    if rnd.random() < 0.2:
        hdrs.append(("Content-Description", 'desc with "quotes"'))
    if rnd.random() < 0.2:
        hdrs.append(("Content-Language", "en, de"))
    hdrs.append(("X-CID", cid))
    for n, v in hdrs:
        if '"' in v or "\\" in v or "=?" in v or any(ord(c) > 126 for c in v):
            hostile = True
    head_lines = [_fold(rnd, n, v) for n, v in hdrs]
    mime = []
    body = b""
    if shape in ("simple", "nofinalnl", "lf", "mixedeol"):
        ph, body = text_part(rnd, cid)
        mime = ["MIME-Version: 1.0"] + ph
        if any("8bit" in x or "iso-8859" in x for x in ph):
            klass.add("8bit")
    elif shape in ("multipart", "alt"):
        b = f"BOUND{cid}"
        sub = "mixed" if shape == "multipart" else "alternative"
        mime = ["MIME-Version: 1.0", f'Content-Type: multipart/{sub}; boundary="{b}"']
        parts = []
        for i in range(rnd.randint(1, 3)):
            ph, pb = text_part(rnd, f"{cid}p{i}")
            parts.append(("\r\n".join(ph) + "\r\n\r\n").encode("latin-1") + pb)
        body = b"preamble\r\n" + b"".join(b"--" + b.encode() + b"\r\n" + p + (b"" if p.endswith(b"\r\n") else b"\r\n") for p in parts) + b"--" + b.encode() + b"--\r\n"
        klass.add("multipart")
    elif shape == "nested":
        b1, b2 = f"OUT{cid}", f"IN{cid}"
        ph, pb = text_part(rnd, cid + "a", "7bit")
        ph2, pb2 = text_part(rnd, cid + "b")
        inner = (f'Content-Type: multipart/alternative; boundary="{b2}"\r\n\r\n').encode() + b"--" + b2.encode() + b"\r\n" + ("\r\n".join(ph2) + "\r\n\r\n").encode("latin-1") + pb2 + b"--" + b2.encode() + b"--\r\n"
        body = b"--" + b1.encode() + b"\r\n" + ("\r\n".join(ph) + "\r\n\r\n").encode() + pb + b"--" + b1.encode() + b"\r\n" + inner + b"--" + b1.encode() + b"--\r\n"
        mime = ["MIME-Version: 1.0", f'Content-Type: multipart/mixed; boundary="{b1}"']
        klass.add("multipart")
    elif shape in ("rfc822", "nested822"):
        inner = make_message(rnd, cid + "i", force="simple")["raw"]
        if shape == "rfc822":
            mime = ["MIME-Version: 1.0", "Content-Type: message/rfc822"]
            body = inner
        else:
            b = f"B822{cid}"
            mime = ["MIME-Version: 1.0", f'Content-Type: multipart/mixed; boundary="{b}"']
            body = b"--" + b.encode() + b"\r\nContent-Type: text/plain\r\n\r\nintro\r\n--" + b.encode() + b"\r\nContent-Type: message/rfc822\r\n\r\n" + inner + b"\r\n--" + b.encode() + b"--\r\n"
            klass.add("multipart")
    elif shape == "empty":
        mime = []
        body = b""
    elif shape == "headeronly":
        mime = []
        body = None
    head = "\r\n".join(head_lines + mime) + "\r\n"
    raw = head.encode("latin-1")
    if body is not None:
        raw += b"\r\n" + body
    if shape == "nofinalnl" and raw.endswith(b"\r\n"):
        raw = raw[:-2]
    if shape == "lf":
        raw = raw.replace(b"\r\n", b"\n")
    if shape == "mixedeol":
        lines = raw.split(b"\r\n")
        raw = b"".join(l + (b"\n" if i % 3 == 1 else b"\r\n") for i, l in enumerate(lines[:-1])) + lines[-1]
    return {"raw": raw, "klass": sorted(klass), "headers": hdrs, "hostile": hostile, "cid": cid, "shape": shape}


def fixture_messages():
    """The repo's fixture corpus (read-only)."""
    import glob
    import os

    out = []
    base = os.path.join(os.environ.get("ASIMAP_REPO", "/repo"), "asimap", "test", "fixtures")
    for p in sorted(glob.glob(os.path.join(base, "**", "*"), recursive=True)):
        if os.path.isfile(p) and os.path.getsize(p) < 400_000:
            with open(p, "rb") as f:
                data = f.read()
            if b":" in data[:200] and b"\n" in data:
                out.append((os.path.relpath(p, base), data))
    return out
