"""History driver: a sequential reference model, per-session view replayer,
UID ledger and non-perturbing observer, attached to the rig.

One World = one server directory.  Operations (`op_*`) send real commands
through rig sessions, update the model *outcome-driven* (the tagged status
the server gave is an input), and evaluate the monitors.  Every monitor hit
is recorded with the ids of the properties it refutes; property modules
report only their own.
"""
import re
from collections import Counter

from .gen import CidFactory, cid_of_fetch

SYSTEM = {"\\seen": "\\Seen", "\\answered": "\\Answered", "\\flagged": "\\Flagged", "\\deleted": "\\Deleted", "\\draft": "\\Draft", "\\recent": "\\Recent"}
SPECIAL_USE = ["Archive", "Deleted Messages", "Drafts", "Junk", "Sent Messages"]


def canon_flag(f):
    return SYSTEM.get(f.lower(), f) if f.startswith("\\") else f


def canon_name(n):
    return "INBOX" if n.lower() == "inbox" else n


def wire_name(n):
    """How the harness writes a mailbox name in a command."""
    if re.fullmatch(r"[A-Za-z0-9_./+-]+", n):
        return n
    return '"' + n.replace("\\", "\\\\").replace('"', '\\"') + '"'


class Stop(Exception):
    """A monitor fired: the history ends here (the model may be out of step)."""


class M:
    __slots__ = ("uid", "cid", "flags", "idate", "recent", "digest", "size", "ext")

    def __init__(self, uid, cid, flags, idate=None):
        self.uid = uid
        self.cid = cid
        self.flags = set(flags)
        self.idate = idate
        self.recent = True
        self.digest = None
        self.size = None
        self.ext = False  # filed by the external MH agent (its flags are C13's subject too)

    def __repr__(self):
        return f"({self.uid},{self.cid},{sorted(self.flags)})"


class MBox:
    def __init__(self, name, vv=None):
        self.name = name
        self.vv = vv
        self.msgs = []
        self.subscribed = False
        self.noselect = False
        self.uidnext_told = 0

    def by_uid(self, u):
        for m in self.msgs:
            if m.uid == u:
                return m
        return None


def parse_idate(s):
    import datetime as _dt

    try:
        return _dt.datetime.strptime(s.strip(), "%d-%b-%Y %H:%M:%S %z").timestamp()
    except Exception:
        return None


def expand_uidset(s):
    out = []
    if not s:
        return out
    for part in s.split(","):
        if ":" in part:
            a, b = part.split(":")
            a, b = int(a), int(b)
            out.extend(range(min(a, b), max(a, b) + 1) if a <= b else range(a, b - 1, -1))
        else:
            out.append(int(part))
    return out


class Sess:
    """Harness-side state of one IMAP session + its view replayer (C01)."""

    def __init__(self, world, s):
        self.w = world
        self.s = s
        self.name = s.name
        self.selected = None
        self.readonly = False
        self.view = None  # list of [uid|None, last unsolicited flags|None]
        self.idling = False
        self.in_nonuid_fss = False
        self.selecting = False
        self._last_exists = None
        self.dirty = set()  # uids changed by others since our last flush
        self.dead = False
        s.listeners.append(self._on_resp)

    # ---- view replayer: consumes every response in order
    def _on_resp(self, _s, r):
        w = self.w
        if r.kind != "num":
            return
        if self.view is None:
            if self.selecting and r.name == "EXISTS":
                self._last_exists = r.num
            return
        n = r.num
        st = w.stats
        if r.name == "EXISTS":
            st["replayed_exists"] += 1
            if n < len(self.view):
                w.viol(w.view_props(self), "exists-shrinks", f"{self.name}: EXISTS {n} < view length {len(self.view)}")
                return
            if n > len(self.view):
                st["view_grew"] += 1
            self.view.extend([None, None, "new"] for _ in range(n - len(self.view)))
        elif r.name == "EXPUNGE":
            st["replayed_expunge"] += 1
            if self.in_nonuid_fss:
                w.viol(["C01"], "expunge-during-nonuid-fetch-store-search", f"{self.name}: * {n} EXPUNGE while {self.in_nonuid_fss} in progress")
            if not (1 <= n <= len(self.view)):
                w.viol(w.view_props(self), "expunge-outside-view", f"{self.name}: EXPUNGE {n} with view length {len(self.view)}")
                return
            del self.view[n - 1]
        elif r.name == "FETCH":
            st["replayed_fetch"] += 1
            if not (1 <= n <= len(self.view)):
                w.viol(w.view_props(self), "fetch-outside-view", f"{self.name}: FETCH {n} with view length {len(self.view)}: {r.raw[:80]!r}")
                return
            d = dict(r.data)
            cell = self.view[n - 1]
            if "UID" in d:
                u = d["UID"]
                if cell[0] not in (None, u):
                    w.viol(["C01", "C03"], "fetch-uid-mismatch", f"{self.name}: FETCH {n} says UID {u} but the view's cell {n} is UID {cell[0]}")
                    return
                cell[0] = u
                known = [c[0] for c in self.view if c[0] is not None]
                if any(a >= b for a, b in zip(known, known[1:])):
                    w.viol(["C01", "C02"], "view-uids-not-ascending", f"{self.name}: {known}")
            if "FLAGS" in d:
                fl = set(canon_flag(f) for f in d["FLAGS"])
                if len(cell) > 2 and cell[2] == "new" and cell[1] is None and not self.in_nonuid_fss and "UID" not in d:
                    # first announcement of a message that arrived while we
                    # had the mailbox selected
                    st["new_msg_first_flags"] += 1
                    if "\\Recent" not in fl:
                        if self.selected in getattr(w, "fault_boxes", ()):
                            # an injected write fault interrupted the resync that was announcing a delivery to this mailbox: the
                            # property does not say what the announcement looks like then (no fault is part of it) -- not judged
                            st["recent_not_judged_after_injected_fault"] += 1
                        else:
                            w.viol(["C13"], "new-message-announced-without-recent", f"{self.name}: {r.raw[:100]!r}")
                cell[1] = fl

    def uids_known(self):
        return self.view is not None and all(c[0] is not None for c in self.view)

    def nview(self):
        return len(self.view) if self.view is not None else 0


class World:
    def __init__(self, rig, rnd, opts=None):
        self.rig = rig
        self.rnd = rnd
        self.opts = opts or {}
        self.cids = CidFactory(self.opts.get("cid_prefix", "c"))
        self.boxes = {}  # canonical name -> MBox
        self.sessions = []
        self.obs = None
        self.violations = []  # dicts {props, kind, detail}
        self.stats = Counter()
        self.ledger = {}  # (name, vv, uid) -> cid
        self.vv_history = {}  # name -> list of vv told
        self.vv_owner = {}  # (name, vv) -> the MBox (incarnation) that had it
        self.max_vv = 0
        self.cid_info = {}  # cid -> dict(idate=..., digest=...)
        self.steps = []  # human-readable history
        self.stop_on = self.opts.get("stop_on_any", True)
        self.flag_mode = self.opts.get("observer_flags", "fetch")
        self.tolerate = set(self.opts.get("tolerate", []))
        self.known_hits = Counter()
        self.flags_used = set()
        self.subscribed_leaf_deleted = set()

    # ------------------------------------------------------------ plumbing
    def viol(self, props, kind, detail, **data):
        data.setdefault("flags_used", sorted(self.flags_used))  # context every mechanism classifier may need
        v = {"props": list(props), "kind": kind, "detail": str(detail)[:600], "step": len(self.steps), "data": data}
        own = getattr(self, "continue_past_foreign", None)
        if own and not (set(props) & set(own)):
            # a scenario whose own oracle does not rest on the model (e.g. before/after
            # restart comparison) goes on after a witness that belongs to another property
            self.foreign_violations.append(v)
            self.stats["foreign_viol:" + kind] += 1
            return
        self.violations.append(v)
        self.stats["viol:" + kind] += 1
        raise Stop()

    foreign_violations = ()

    def view_props(self, ss):
        """Which properties a view anomaly of session `ss` is a witness of: C01
        always; C13 as well while a delivery to the selected mailbox is still
        being announced (messages filed by the agent that the model has not
        seen with a UID yet) -- then "announced as new messages at the end of
        the mailbox" is what failed."""
        b = self.boxes.get(ss.selected) if getattr(ss, "selected", None) else None
        if b is not None and any(getattr(m, "ext", False) and m.uid is None for m in b.msgs):
            return ["C01", "C13"]
        return ["C01"]

    def note(self, text):
        self.steps.append(text)

    async def init(self):
        """Learn the initial mailbox set from the server (LIST) through the
        observer."""
        self.obs = self.rig.session("O")
        r = await self.obs.cmd('LIST "" *')
        for x in r.untagged("LIST"):
            nm = self._decode_name(x.data["name"])
            b = MBox(canon_name(nm))
            b.noselect = "\\Noselect" in x.data["attrs"]
            self.boxes[b.name] = b
        await self.observe(initial=True)

    def _decode_name(self, v):
        return bytes(v).decode("latin-1") if isinstance(v, (bytes, bytearray)) else str(v)

    def session(self):
        s = Sess(self, self.rig.session())
        self.sessions.append(s)
        return s

    def server_uids(self, name):
        mb = self.rig.server.active_mailboxes.get("inbox" if name == "INBOX" else name)
        return None if mb is None else list(mb.uids)

    def selectable(self):
        return [b for b in self.boxes.values() if not b.noselect]

    def has_inferiors(self, name):
        return any(k.startswith(name + "/") for k in self.boxes)

    # ------------------------------------------------- flag normalisation
    def norm_reported(self, flags, where):
        """Reported flags -> comparable set (without \\Recent).  Handles the
        known `unseen` exposure (tests in the repo pin it)."""
        fs = set(canon_flag(f) for f in flags)
        fs.discard("\\Recent")
        if "unseen" in fs:
            if "\\Seen" in fs:
                self.viol(["C04"], "seen-and-unseen-together", f"{where}: {sorted(fs)}", flags_used=sorted(self.flags_used))
            fs.discard("unseen")
            self.known_hits["C04-unseen-keyword-exposed"] += 1
        if "Seen" in fs and "\\Seen" in fs:
            pass
        return fs

    def model_flags(self, m):
        return set(f for f in m.flags if f != "\\Recent")

    # ------------------------------------------------------------ observer
    async def observe(self, initial=False, names=None, full=False, force_fetch_flags=False):
        """Compare the model with what a fresh read-only look shows, using
        commands that do not change state."""
        o = self.obs
        if o.writer.closed or o.wire_error:
            self.obs = o = self.rig.session("O")
        self.stats["observations"] += 1
        for b in list(self.boxes.values()):
            if names is not None and b.name not in names:
                continue
            if b.noselect:
                continue
            r = await o.cmd("EXAMINE " + wire_name(b.name))
            if not r.ok:
                if initial:
                    continue
                self.viol(["C17", "C05"], "model-mailbox-not-selectable", f"{b.name}: EXAMINE -> {r.status} {r.tagged.text if r.tagged else ''}")
            self._check_select_data(b, r, "observer EXAMINE")
            items = "UID INTERNALDATE RFC822.SIZE BODY.PEEK[HEADER.FIELDS (X-CID)]"
            use_fetch_flags = self.flag_mode == "fetch" or force_fetch_flags
            if use_fetch_flags:
                items = "FLAGS " + items
            if full:
                items += " BODY.PEEK[]"
            n_exists = [x.num for x in r.responses if x.kind == "num" and x.name == "EXISTS"][-1]
            rows = []
            if n_exists:
                rf = await o.cmd(f"UID FETCH 1:* ({items})")
                if not rf.ok:
                    if rf.status == "WIREERR" and b"UID None" in bytes(o.trailing()[:400]):
                        self.viol(["C07", "C03", "C02", "C06"], "message-reported-without-uid", f"observer {b.name}: {bytes(o.trailing()[:160])!r}")
                    self.viol(["C06"], "observer-fetch-failed", f"{b.name}: {rf.brief()}")
                for n, d in rf.fetches():
                    if "UID" not in d:
                        continue
                    rows.append((n, d))
                rows.sort(key=lambda x: x[0])
            flagsets = None
            if not use_fetch_flags:
                flagsets = await self._flags_by_search(o, b, [d["UID"] for _, d in rows])
            await o.cmd("UNSELECT")
            self._compare_box(b, rows, flagsets, initial, full)
        self.stats["observer_msgs_compared"] += sum(len(b.msgs) for b in self.boxes.values())

    async def _flags_by_search(self, o, b, uids):
        res = {u: set() for u in uids}
        keys = [("SEEN", "\\Seen"), ("ANSWERED", "\\Answered"), ("FLAGGED", "\\Flagged"), ("DELETED", "\\Deleted"), ("DRAFT", "\\Draft")]
        kws = set()
        for m in b.msgs:
            kws |= {f for f in m.flags if not f.startswith("\\")}
        for kw in sorted(kws | set(self.opts.get("probe_keywords", []))):
            keys.append((f"KEYWORD {kw}", kw))
        for key, flag in keys:
            r = await o.cmd("UID SEARCH " + key)
            if not r.ok:
                self.viol(["C04", "C14"], "flag-search-failed", f"{b.name}: UID SEARCH {key} -> {r.brief()}")
            for x in r.untagged("SEARCH"):
                for u in x.data:
                    if u in res:
                        res[u].add(flag)
                    else:
                        self.viol(["C14"], "search-returned-unknown-uid", f"{b.name}: UID SEARCH {key} -> {u}")
            self.stats["flag_searches"] += 1
        return res

    def _check_select_data(self, b, r, where):
        vv = nxt = ex = None
        for x in r.responses:
            if x.kind == "status" and x.code:
                m = re.match(r"UIDVALIDITY (\d+)", x.code)
                if m:
                    vv = int(m.group(1))
                m = re.match(r"UIDNEXT (\d+)", x.code)
                if m:
                    nxt = int(m.group(1))
            if x.kind == "num" and x.name == "EXISTS":
                ex = x.num
        if vv is not None:
            self.told_vv(b, vv, where)
        if nxt is not None:
            self.told_uidnext(b, nxt, where)
        return ex

    def told_vv(self, b, vv, where):
        self.stats["vv_told"] += 1
        if b.vv is None:
            hist = self.vv_history.setdefault(b.name, [])
            # created again: larger than any the name had; arrived under the name by RENAME: at least not one it had
            if hist and ((vv in hist) if getattr(b, "arrived_by_rename", False) else vv <= max(hist)):
                self.viol(["C02"], "uidvalidity-not-larger-after-recreate", f"{b.name}: new UIDVALIDITY {vv} but the name already had {hist} ({where})")
            b.vv = vv
            hist.append(vv)
            self.vv_owner[(b.name, vv)] = b
        elif b.vv != vv:
            self.viol(["C02", "C12"], "uidvalidity-changed", f"{b.name}: UIDVALIDITY {vv}, model {b.vv} ({where})")

    def told_uidnext(self, b, nxt, where):
        self.stats["uidnext_told"] += 1
        mx = max([u for (n, v, u) in self.ledger if n == b.name and v == b.vv] + [0])
        if nxt <= mx:
            self.viol(["C02"], "uidnext-not-above-assigned", f"{b.name}: UIDNEXT {nxt} but UID {mx} was revealed ({where})")
        if nxt < b.uidnext_told:
            self.viol(["C02", "C12"], "uidnext-decreased", f"{b.name}: UIDNEXT {nxt} after {b.uidnext_told} ({where})")
        b.uidnext_told = nxt

    def reveal(self, b, uid, cid, where):
        """Write-once ledger: (name, uidvalidity, uid) -> cid."""
        if cid is None or b.vv is None:
            return
        k = (b.name, b.vv, uid)
        old = self.ledger.get(k)
        self.stats["ledger_obs"] += 1
        if old is None:
            self.ledger[k] = cid
        elif old != cid:
            self.viol(["C02", "C03"], "uid-rebound", f"{b.name} vv={b.vv} uid={uid}: first {old}, now {cid} ({where})")
        else:
            self.stats["ledger_reobs"] += 1

    def _compare_box(self, b, rows, flagsets, initial, full):
        got = []
        for n, d in rows:
            cid = cid_of_fetch(d)
            got.append((d["UID"], cid, d))
        uids = [g[0] for g in got]
        if any(a >= c for a, c in zip(uids, uids[1:])):
            self.viol(["C02"], "uids-not-ascending", f"{b.name}: {uids}")
        if initial:
            b.msgs = []
            for u, cid, d in got:
                m = M(u, cid, self.norm_reported(d.get("FLAGS", []), b.name) if "FLAGS" in d else (flagsets or {}).get(u, set()), parse_idate(d.get("INTERNALDATE", "")))
                b.msgs.append(m)
                self.reveal(b, u, cid, "initial")
            return
        mc = [m.cid for m in b.msgs]
        gc = [g[1] for g in got]
        if mc != gc:
            missing = [c for c in mc if c not in gc]
            extra = [c for c in gc if c not in mc]
            props = ["C05"]
            kind = "content-set-differs"
            if not missing and not extra:
                kind = "order-differs"
                props = ["C05", "C03", "C13"]
            self.viol(props, kind, f"{b.name}: model {mc} server {gc} missing={missing} extra={extra}")
        for m, (u, cid, d) in zip(b.msgs, got):
            where = f"{b.name} uid {u} ({cid})"
            if m.uid is None:
                # delivered externally: learn, then hold the server to it
                mx = max([x.uid for x in b.msgs if x.uid is not None and x is not m] + [0])
                prev = [x.uid for x in b.msgs[: b.msgs.index(m)] if x.uid is not None]
                if prev and u <= max(prev):
                    self.viol(["C02", "C13"], "new-message-uid-not-larger", f"{where}: earlier uids {prev}")
                m.uid = u
            elif m.uid != u:
                self.viol(["C03", "C02", "C12"], "uid-changed", f"{b.name}: {cid} had UID {m.uid}, now {u}")
            self.reveal(b, u, cid, "observer")
            if "FLAGS" in d:
                rf = self.norm_reported(d["FLAGS"], where)
            else:
                rf = set(flagsets.get(u, set()))
            mf = self.model_flags(m)
            if rf != mf:
                self.flag_mismatch(b, m, rf, mf, "observer " + where)
            idt = parse_idate(d.get("INTERNALDATE", ""))
            if m.idate is None:
                m.idate = idt
            elif idt is not None and abs(idt - m.idate) >= 1.0:
                self.viol(["C03", "C05"], "internaldate-changed", f"{where}: model {m.idate} server {idt}")
            info = self.cid_info.setdefault(cid, {})
            if "size" in info and info["size"] != d.get("RFC822.SIZE"):
                self.viol(["C03", "C16"], "size-changed", f"{where}: {info['size']} -> {d.get('RFC822.SIZE')}")
            info.setdefault("size", d.get("RFC822.SIZE"))
            if full:
                body = d.get("BODY[]")
                if body is not None:
                    import hashlib

                    dg = hashlib.sha1(bytes(body)).hexdigest()
                    if "digest" in info and info["digest"] != dg:
                        self.viol(["C03", "C05"], "content-changed", f"{where}: BODY[] digest changed")
                    info.setdefault("digest", dg)
                    self.stats["digest_compares"] += 1

    def flag_mismatch(self, b, m, reported, model, where):
        """Classify a flag discrepancy by mechanism; tolerated mechanisms are
        counted (known findings), anything else is a C04 violation."""
        extra = reported - model
        missing = model - reported
        self.viol(["C04", "C13"] if getattr(m, "ext", False) else ["C04"], "flags-differ", f"{where}: reported {sorted(reported)} model {sorted(model)} (extra {sorted(extra)}, missing {sorted(missing)})",
                  extra=sorted(extra), missing=sorted(missing), flags_used=sorted(self.flags_used))

    # ---------------------------------------------------------- operations
    async def _cmd(self, ss, text, kind=None):
        if kind in ("FETCH", "STORE", "SEARCH"):
            ss.in_nonuid_fss = kind
        try:
            r = await ss.s.cmd(text)
        finally:
            ss.in_nonuid_fss = False
        shown = text if isinstance(text, str) else text[:60].decode("latin-1")
        self.note(f"{ss.name}: {shown} -> {r.status}" + (f" [{r.tagged.code}]" if r.tagged is not None and r.tagged.code else ""))
        if r.status not in ("OK", "NO", "BAD"):
            ss.dead = True
            if r.status == "WIREERR":
                tail = bytes(ss.s.trailing()[:400])
                if b"UID None" in tail:
                    # a message reported without a UID: the UID <-> message binding itself is broken
                    self.viol(["C07", "C03", "C02", "C06"], "message-reported-without-uid", f"{ss.name}: {shown!r:.80}: {tail[:160]!r}")
                self.viol(["C07", "C06"], "malformed-response", f"{ss.name}: {shown!r:.80}: {ss.s.wire_error}; {tail[:120]!r}")
            self.viol(["C06"], "no-tagged-reply", f"{ss.name}: {shown!r:.80} -> {r.status}; log={[x[2][:160] for x in self.rig.log_records[-2:]]}")
        if r.latency is not None and r.latency >= 60:
            self.viol(["C06"], "latency", f"{ss.name}: {shown!r:.80} took {r.latency:.0f} virtual seconds")
        for o in self.rig.sessions:
            if o.view_errors:
                self.viol(["C01"], "view-monitor", f"after {ss.name}: {shown!r:.60}: {o.view_errors[:3]}")
        return r

    async def op_select(self, ss, name, examine=False):
        b = self.boxes.get(name)
        ss.view = None
        ss.selected = None
        ss.selecting = True
        ss._last_exists = None
        ss.dirty = set()
        try:
            r = await self._cmd(ss, ("EXAMINE " if examine else "SELECT ") + wire_name(name))
        finally:
            ss.selecting = False
        if r.ok:
            if b is None or b.noselect:
                self.viol(["C17"], "selected-nonexistent-mailbox", f"{name}: SELECT OK but the model has {'a placeholder' if b else 'no such mailbox'}")
            ex = self._check_select_data(b, r, f"{ss.name} SELECT")
            if ex is None:
                self.viol(["C07"], "select-without-exists", f"{name}")
            if ex != len(b.msgs):
                self.viol(["C05", "C13", "C01"], "select-exists-differs", f"{name}: EXISTS {ex}, model {len(b.msgs)} {b.msgs}")
            ss.selected = name
            ss.readonly = examine
            ss.view = [[None, None] for _ in range(ex)]
            code = r.tagged.code or ""
            if examine and "READ-ONLY" not in code:
                self.viol(["C05"], "examine-not-read-only", f"{name}: {code}")
            self.stats["selects"] += 1
        else:
            if b is not None and not b.noselect:
                self.viol(["C17", "C06"], "select-refused", f"{name}: {r.brief()}")
        return r

    async def op_unselect(self, ss, close=False):
        b = self.boxes.get(ss.selected) if ss.selected else None
        was_ro = ss.readonly
        had = ss.view is not None
        ss.view = None
        r = await self._cmd(ss, "CLOSE" if close else "UNSELECT")
        if r.ok and close and had and b is not None and not was_ro:
            removed = [m for m in b.msgs if "\\Deleted" in m.flags]
            if removed:
                self.stats["close_expunged"] += len(removed)
                self._remove(b, removed, actor=ss)
            if any(x.kind == "num" and x.name == "EXPUNGE" for x in r.responses):
                self.viol(["C01", "C05"], "close-sent-expunge", f"{ss.name}")
        if r.ok:
            ss.selected = None
        return r

    def _remove(self, b, msgs, actor=None):
        ids = {id(m) for m in msgs}
        for o in self.sessions:
            if o is not actor and o.selected == b.name:
                self.stats["others_to_be_told_expunge"] += 1
        b.msgs = [m for m in b.msgs if id(m) not in ids]

    def _mark_dirty(self, b, msgs, actor):
        for o in self.sessions:
            if o is not actor and o.selected == b.name and o.view is not None:
                o.dirty.update(m.uid for m in msgs if m.uid is not None)

    async def op_append(self, ss, name, flags=None, date=None, extra_headers=(), body_lines=None):
        cid, msg = self.cids.make(self.rnd, extra_headers=extra_headers, body_lines=body_lines)
        self.flags_used.update(flags or [])
        b = self.boxes.get(name)
        before = None
        r = await self._cmd(ss, b"APPEND " + wire_name(name).encode("latin-1") + (b" (" + " ".join(flags).encode() + b")" if flags is not None else b"")
                            + (b' "' + date.encode() + b'"' if date else b"") + b" {%d+}\r\n" % len(msg) + msg)
        if r.ok:
            if b is None or b.noselect:
                self.viol(["C05", "C17"], "append-to-nonexistent-accepted", f"{name}")
            m = re.match(r"APPENDUID (\d+) (\d+)", r.tagged.code or "")
            if not m:
                self.viol(["C02", "C05"], "append-without-appenduid", f"{r.tagged.raw!r}")
            vv, uid = int(m.group(1)), int(m.group(2))
            self.told_vv(b, vv, "APPENDUID")
            self._fresh_uid(b, uid, "APPENDUID")
            mm = M(uid, cid, [canon_flag(f) for f in (flags or [])], parse_idate(date) if date else None)
            b.msgs.append(mm)
            self.reveal(b, uid, cid, "APPENDUID")
            self.stats["appends"] += 1
            self._mark_dirty(b, [mm], ss)
            return mm
        if b is not None and not b.noselect and not any(":" in f for f in (flags or [])):
            self.viol(["C05", "C06"], "append-refused", f"APPEND {name} flags={flags} date={date} -> {r.brief()}")
        self.stats["append_refused"] += 1
        if b is not None and b.noselect:
            self._placeholder_must_be_empty(b, f"APPEND {name}")
        return None

    def _placeholder_must_be_empty(self, b, what):
        """A refused command with a \\Noselect placeholder as destination must
        not have left message files in its folder."""
        import os

        path = self.rig.maildir / b.name
        try:
            left = sorted(int(f) for f in os.listdir(path) if f.isdigit() and os.path.isfile(path / f))
        except OSError:
            return
        self.stats["placeholder_emptiness_checks"] += 1
        if left:
            self.viol(["C05"], "refused-command-left-messages-in-placeholder", f"{what}: folder {b.name} now holds message files {left}")

    def _fresh_uid(self, b, uid, where):
        mx = max([u for (n, v, u) in self.ledger if n == b.name and v == b.vv] + [m.uid or 0 for m in b.msgs] + [0])
        if uid <= mx:
            self.viol(["C02"], "uid-not-fresh", f"{b.name}: {where} gives UID {uid} but {mx} was already assigned")
        if uid < b.uidnext_told:
            self.viol(["C02"], "uid-below-uidnext-told", f"{b.name}: {where} gives UID {uid} but UIDNEXT {b.uidnext_told} was told")

    async def learn_uids(self, b):
        """Messages delivered externally have no UID in the model until a
        client has seen them: look (observer) before addressing anything."""
        if any(m.uid is None for m in b.msgs) and not getattr(self, "no_probe", False):
            await self.observe(names=[b.name])
            self.stats["learn_uid_observations"] += 1

    def addressed(self, ss, spec, uid_mode):
        """spec: list of positions (1-based, non-UID) or list of uids (UID
        mode).  Returns model messages addressed, in sequence order."""
        b = self.boxes[ss.selected]
        if uid_mode:
            want = set(spec)
            return [m for m in b.msgs if m.uid in want]
        out = []
        for p in sorted(set(spec)):
            u = ss.view[p - 1][0]
            m = b.by_uid(u)
            if m is not None:
                out.append(m)
        return out

    @staticmethod
    def fmt_set(nums):
        """Runs of three or more consecutive numbers are written as ranges, as clients do."""
        nums = list(nums)
        out = []
        i = 0
        while i < len(nums):
            j = i
            while j + 1 < len(nums) and isinstance(nums[j], int) and nums[j + 1] == nums[j] + 1:
                j += 1
            if j - i >= 2:
                out.append(f"{nums[i]}:{nums[j]}")
            else:
                out.extend(str(n) for n in nums[i : j + 1])
            i = j + 1
        return ",".join(out)

    async def ensure_uids_known(self, ss, positions=None):
        """A client only uses sequence numbers for messages it knows; learn
        the UIDs of the view cells we are about to address."""
        if ss.view is None:
            return
        need = [i + 1 for i, c in enumerate(ss.view) if c[0] is None and (positions is None or (i + 1) in positions)]
        if need:
            r = await self._cmd(ss, f"FETCH {self.fmt_set(need)} (UID)", kind="FETCH")
            if r.status == "NO" and "pending" in (r.tagged.text or "").lower():
                await self.op_noop(ss)
                r = await self._cmd(ss, f"FETCH {self.fmt_set([i + 1 for i, c in enumerate(ss.view) if c[0] is None])} (UID)", kind="FETCH") if ss.view and any(c[0] is None for c in ss.view) else r

    async def op_store(self, ss, spec, action, flags, silent=False, uid_mode=False):
        if not spec:
            return None
        b = self.boxes[ss.selected]
        await self.learn_uids(b)
        if not uid_mode:
            await self.ensure_uids_known(ss, set(spec))
            if any(p > ss.nview() for p in spec):
                return None
        targets = self.addressed(ss, spec, uid_mode)
        verb = {"add": "+FLAGS", "remove": "-FLAGS", "replace": "FLAGS"}[action] + (".SILENT" if silent else "")
        text = f"{'UID ' if uid_mode else ''}STORE {self.fmt_set(spec)} {verb} ({' '.join(flags)})"
        recent0 = self._disk_recent(b)
        self.flags_used.update(flags)
        r = await self._cmd(ss, text, kind=None if uid_mode else "STORE")
        # \\Recent can never be set by a client: no message that was in the
        # folder before the STORE may have gained it (the MH `Recent` sequence
        # read from disk, by position: reading it has no side effect)
        recent1 = self._disk_recent(b)
        if recent0 is not None and recent1 is not None and len(recent1) >= len(recent0):
            self.stats["store_recent_compares"] += len(recent0)
            # (a delivery the server has not noticed yet legitimately becomes \\Recent whenever it is noticed)
            gained = [i + 1 for i, (x, y) in enumerate(zip(recent0, recent1)) if y and not x and i < len(b.msgs) and b.msgs[i].uid is not None]
            if gained and "\\Recent" not in [canon_flag(f) for f in flags]:
                self.viol(["C04"], "store-set-recent", f"{text}: messages at positions {gained} were not \\Recent before the command and are after it (Recent before {recent0}, after {recent1})", flags_used=sorted(flags), store_flags=sorted(flags))
        cf = [canon_flag(f) for f in flags]
        self.flags_used.update(flags)
        if any(f == "\\Recent" for f in cf):
            if r.ok:
                self.viol(["C04"], "store-recent-accepted", text)
            return r
        if r.status == "NO" and "pending" in (r.tagged.text or "").lower() and not uid_mode:
            self.stats["refused_pending_expunge"] += 1
            return r
        if not r.ok:
            if ss.readonly:
                self.stats["examine_store_refused"] += 1
                return r
            if any(":" in f for f in flags) and r.status in ("NO", "BAD"):
                # a keyword containing ':' cannot be an MH sequence name: refusing
                # it (without effect) is the only sound answer of an MH-backed store
                self.stats["colon_keyword_refused"] += 1
                return r
            self.viol(["C04", "C06"], "store-refused", f"{text} -> {r.brief()}")
        if ss.readonly:
            self.viol(["C05"], "examine-store-accepted", f"{ss.name} has {b.name} EXAMINEd: {text} -> OK")
        for m in targets:
            if action == "add":
                m.flags |= set(cf)
            elif action == "remove":
                m.flags -= set(cf)
            else:
                m.flags = set(cf) | ({"\\Recent"} & m.flags)
        self.stats["stores"] += 1
        self.stats["store:" + action] += 1
        self._mark_dirty(b, targets, ss)
        for m in targets:  # the actor knows what it stored
            pos = self._pos_in_view(ss, m)
            if pos is not None:
                ss.view[pos - 1][1] = set(m.flags)
            ss.dirty.discard(m.uid)
        # the command's own FETCH data
        fl = [(n, d) for n, d in r.fetches() if "FLAGS" in d]
        if silent:
            own = [x for x in fl]
            # (pending notifications from other sessions may legitimately be
            # flushed here; they carry no UID in non-UID mode, so only count)
            self.stats["silent_store_fetches"] += len(own)
        else:
            seen_pos = {}
            for n, d in fl:
                seen_pos[n] = d
            for m in targets:
                pos = self._pos_in_view(ss, m)
                if pos is None:
                    continue
                d = seen_pos.get(pos)
                if d is None:
                    self.viol(["C04"], "store-no-fetch-response", f"{text}: no FETCH for message {pos} (uid {m.uid})")
                if uid_mode and d.get("UID") != m.uid:
                    self.viol(["C04", "C01"], "uid-store-fetch-without-uid", f"{text}: FETCH {pos} -> {d}")
                rf = self.norm_reported(d["FLAGS"], text)
                if rf != self.model_flags(m):
                    self.flag_mismatch(b, m, rf, self.model_flags(m), f"own response to {text}")
                self.stats["store_own_flags_compared"] += 1
        return r

    def _pos_in_view(self, ss, m):
        if ss.view is None:
            return None
        for i, c in enumerate(ss.view):
            if c[0] == m.uid:
                return i + 1
        return None

    async def op_fetch(self, ss, spec, items, uid_mode=False, sets_seen=False):
        b = self.boxes[ss.selected]
        await self.learn_uids(b)
        if not uid_mode and any(p > ss.nview() for p in spec):
            return None
        if not uid_mode and sets_seen:
            await self.ensure_uids_known(ss, set(spec))
        text = f"{'UID ' if uid_mode else ''}FETCH {self.fmt_set(spec)} ({items})"
        r = await self._cmd(ss, text, kind=None if uid_mode else "FETCH")
        if r.status == "NO" and "pending" in (r.tagged.text or "").lower() and not uid_mode:
            self.stats["refused_pending_expunge"] += 1
            return r
        if not r.ok:
            if uid_mode or all(1 <= p <= ss.nview() for p in spec):
                self.viol(["C06", "C15"], "fetch-refused", f"{text} -> {r.brief()}")
            return r
        self.stats["fetches"] += 1
        if sets_seen:
            targets = self.addressed(ss, spec, uid_mode)
            if not ss.readonly:
                changed = [m for m in targets if "\\Seen" not in m.flags]
                for m in changed:
                    m.flags.add("\\Seen")
                self._mark_dirty(b, changed, ss)
                self.stats["implicit_seen"] += len(changed)
            else:
                self.stats["examine_nonpeek_fetch"] += 1
        got = r.fetches()
        for n, d in got:
            cid = cid_of_fetch(d)
            if "UID" in d and cid:
                self.reveal(b, d["UID"], cid, text)
                mm = b.by_uid(d["UID"])
                if mm is None:
                    self.viol(["C05", "C03"], "fetch-returned-unknown-message", f"{text}: UID {d['UID']} {cid} not in model {b.msgs}")
                if mm.cid != cid:
                    self.viol(["C03"], "uid-names-other-message", f"{text}: UID {d['UID']} is {mm.cid} in the model, server returned {cid}")
        if uid_mode:
            want = {m.uid for m in self.addressed(ss, spec, True)}
            have = {d.get("UID") for n, d in got if any(k != "FLAGS" for k in d)}
            if not want <= have:
                self.viol(["C15", "C03"], "uid-fetch-missing-messages", f"{text}: wanted {sorted(want)} got {sorted(x for x in have if x)}")
            extra = {x for x in have if x is not None} - {x for x in spec if isinstance(x, int)}
            self.stats["uid_fetch_addressing_compares"] += 1
            if extra:
                self.viol(["C15", "C03"], "uid-fetch-returned-unaddressed-messages", f"{text}: answered for UIDs {sorted(extra)} that the set does not name")
        return r

    async def op_noop(self, ss, check=False):
        r = await self._cmd(ss, "CHECK" if check else "NOOP")
        if r.ok and ss.view is not None:
            await self.flush_check(ss, "CHECK" if check else "NOOP")
        return r

    async def flush_check(self, ss, how):
        """C01 rule 6 + C04 clause 2."""
        b = self.boxes.get(ss.selected)
        if b is None:
            return
        su = self.server_uids(b.name)
        self.stats["flush_compares"] += 1
        self.stats[f"flush_state:{min(len(b.msgs), 9)}"] += 1
        if su is not None:
            if len(ss.view) != len(su):
                self.viol(self.view_props(ss), "view-length-differs-after-flush", f"{ss.name} after {how}: view {len(ss.view)} cells, server {len(su)} messages; view={[c[0] for c in ss.view]} server={su}")
            for i, (c, u) in enumerate(zip(ss.view, su)):
                if c[0] is not None and c[0] != u:
                    self.viol(["C01"], "view-cell-differs-after-flush", f"{ss.name} after {how}: cell {i + 1} is UID {c[0]}, server {u}")
        expect = len(b.msgs)
        if getattr(self, "no_probe", False):
            # another client's command is being kept executing on purpose: the
            # server may defer noticing deliveries made in this window until it
            # is over (they must show up afterwards)
            pending = 0
            for m in reversed(b.msgs):
                if m.uid is None:
                    pending += 1
                else:
                    break
            if len(ss.view) in range(len(b.msgs) - pending, len(b.msgs) + 1):
                expect = len(ss.view)
        if len(ss.view) != expect:
            self.viol(["C01", "C05", "C13"], "view-length-differs-from-model", f"{ss.name} after {how}: view {len(ss.view)}, model {len(b.msgs)} {b.msgs}")
        # every flag change made by others has reached us (C04)
        for i, c in enumerate(ss.view):
            if c[0] is not None and c[0] in ss.dirty:
                m = b.by_uid(c[0])
                if m is None:
                    continue
                if c[1] is None:
                    self.viol(["C04"], "flag-change-not-announced", f"{ss.name} after {how}: no FETCH FLAGS for UID {c[0]} changed by another session")
                got = self.norm_reported(c[1], "notification")
                if got != self.model_flags(m):
                    self.viol(["C04"], "announced-flags-stale", f"{ss.name} after {how}: UID {c[0]} last announced {sorted(got)}, model {sorted(self.model_flags(m))}")
                self.stats["cross_session_flag_checks"] += 1
        ss.dirty = set()
        if ss.view:
            r = await self._cmd(ss, "FETCH 1:* (UID)", kind="FETCH")
            if not r.ok:
                self.viol(["C01", "C06"], "fetch-all-after-flush-failed", f"{ss.name}: {r.brief()}")
            vu = [c[0] for c in ss.view]
            if su is not None and vu != su:
                self.viol(["C01"], "full-view-differs-after-flush", f"{ss.name}: view {vu} server {su}")
            mu = [m.uid for m in b.msgs]
            if all(u is not None for u in mu) and vu != mu:
                self.viol(["C01", "C05"], "full-view-differs-from-model", f"{ss.name}: view {vu} model {mu}")
            self.stats["full_view_compares"] += 1
            for c in ss.view:
                c[1] = c[1]

    async def op_idle(self, ss):
        r = await ss.s.idle()
        self.note(f"{ss.name}: IDLE -> {r.status}")
        if r.status != "CONT":
            self.viol(["C06"], "idle-no-continuation", f"{r.status}")
        ss.idling = True
        await self.rig.settle()
        ss.s.pump()
        if ss.view is not None:
            # flush point without the follow-up FETCH (we are idling)
            b = self.boxes.get(ss.selected)
            su = self.server_uids(b.name) if b else None
            if su is not None and len(su) != len(ss.view):
                self.viol(self.view_props(ss), "view-length-differs-after-idle", f"{ss.name}: view {len(ss.view)} server {len(su)}")
            self.stats["flush_compares"] += 1
        return r

    async def op_done(self, ss):
        r = await ss.s.done()
        self.note(f"{ss.name}: DONE -> {r.status}")
        ss.idling = False
        if r.status != "OK":
            self.viol(["C06"], "done-not-ok", f"{r.status}")
        return r

    async def op_leave(self, ss, how="logout"):
        """The session goes away: with LOGOUT, or the connection just ends at a
        quiet moment ("drop": possibly while idling, possibly with updates
        queued for it).  Everybody else must go on as if nothing had happened."""
        if how == "logout":
            if ss.idling:
                await self.op_done(ss)
            ss.view = None
            r = await ss.s.cmd("LOGOUT")
            self.note(f"{ss.name}: LOGOUT -> {r.status}")
            if r.status != "OK":
                self.viol(["C06"], "logout-not-answered", f"{ss.name}: {r.status}")
            if not any(x.kind == "cond" and x.name == "BYE" or (getattr(x, "name", None) == "BYE") for x in r.responses):
                self.stats["logout_without_bye"] += 1
        else:
            ss.s.eof()
            self.note(f"{ss.name}: connection ends ({'idling' if ss.idling else 'quiet'})")
        ss.dead = True
        ss.view = None
        ss.selected = None
        ss.idling = False
        if ss in self.sessions:
            self.sessions.remove(ss)
        await self.rig.settle()
        await self.rig.advance(1)
        self.stats["left:" + how] += 1

    async def op_drop_midcmd(self, ss, rnd):
        """An extra client (not part of the model) starts a long read-only
        command in the mailbox `ss` has selected, reads slowly so the command
        stays executing, and then its connection ends.  `ss` follows with a
        command that conflicts with the abandoned one: it must be answered."""
        import asyncio

        name = ss.selected
        x = self.rig.session("Y")
        r = await x.cmd("EXAMINE " + wire_name(name))
        if not r.ok:
            return
        ev = asyncio.Event()
        x.writer.stall_ev = ev
        await x.cmd(rnd.choice(["FETCH 1:* (FLAGS BODY.PEEK[])", "UID FETCH 1:* (UID FLAGS BODY.PEEK[HEADER])", "UID SEARCH TEXT nothing-like-this", "FETCH 1:* (UID INTERNALDATE RFC822.SIZE)"]), wait=False)
        await self.rig.settle()
        x.eof()
        self.note(f"Y: connection ends while its command is executing in {name}")
        if rnd.random() < 0.5:
            ev.set()
            x.writer.stall_ev = None
        await self.rig.settle()
        self.stats["dropped_mid_command"] += 1
        try:
            if ss.view is not None and len(ss.view) and not ss.readonly:
                n = len(ss.view)
                await self.op_store(ss, [rnd.randint(1, n)], rnd.choice(["add", "remove"]), [rnd.choice(["\\Flagged", "kw1", "\\Deleted"])])
                if rnd.random() < 0.5:
                    await self.op_expunge(ss)
            else:
                await self.op_noop(ss)
        finally:
            ev.set()
            x.writer.stall_ev = None
        await self.rig.advance(3)

    async def op_expunge(self, ss, uids=None):
        b = self.boxes[ss.selected]
        await self.learn_uids(b)
        text = "EXPUNGE" if uids is None else f"UID EXPUNGE {self.fmt_set(uids)}"
        before = ss.nview()
        r = await self._cmd(ss, text)
        if not r.ok:
            self.viol(["C06", "C05"], "expunge-refused", f"{text} -> {r.brief()}")
        if ss.readonly:
            gone = []
        else:
            gone = [m for m in b.msgs if "\\Deleted" in m.flags and (uids is None or m.uid in set(uids))]
        n_exp = sum(1 for x in r.responses if x.kind == "num" and x.name == "EXPUNGE")
        self._remove(b, gone, actor=ss)
        self.stats["expunges"] += 1
        self.stats["expunged_msgs"] += len(gone)
        if gone and len(b.msgs) > 0:
            self.stats["expunge_proper_subset"] += 1
        return r, gone, n_exp

    async def op_copy(self, ss, spec, dst, uid_mode=False, move=False, star=None):
        """star (UID mode only): write the set with `*` -- "tail": `<lowest of spec>:*`, spec being every
        UID from there on; "only": `*`, spec being the highest UID."""
        b = self.boxes[ss.selected]
        await self.learn_uids(b)
        if not uid_mode:
            await self.ensure_uids_known(ss, set(spec))
            if any(p > ss.nview() for p in spec):
                return None
        targets = self.addressed(ss, spec, uid_mode)
        verb = ("UID " if uid_mode else "") + ("MOVE" if move else "COPY")
        text = f"{verb} {self.fmt_set(spec)} {wire_name(dst)}"
        if star and uid_mode and spec and all(m.uid is not None for m in b.msgs):
            us_ = [m.uid for m in b.msgs]
            if star == "tail" and sorted(spec) == [u for u in us_ if u >= min(spec)]:
                text = f"{verb} {min(spec)}:* {wire_name(dst)}" if len(spec) % 2 else f"{verb} *:{min(spec)} {wire_name(dst)}"
                self.stats["uid_copy_move_with_star"] += 1
            elif star == "only" and list(spec) == [max(us_)]:
                text = f"{verb} * {wire_name(dst)}"
                self.stats["uid_copy_move_with_star"] += 1
        d = self.boxes.get(dst)
        r = await self._cmd(ss, text)
        if r.status == "NO" and "pending" in (r.tagged.text or "").lower() and not uid_mode:
            self.stats["refused_pending_expunge"] += 1
            return r
        if not r.ok:
            if d is not None and not d.noselect and not (move and ss.readonly) and targets:
                self.viol(["C05", "C06"], "copy-refused", f"{text} -> {r.brief()}")
            self.stats["copy_refused"] += 1
            if d is not None and d.noselect:
                self._placeholder_must_be_empty(d, text)
            return r
        if d is None or d.noselect:
            self.viol(["C05", "C17"], "copy-to-nonexistent-accepted", text)
        if move and ss.readonly:
            self.viol(["C05"], "examine-move-accepted", text)
        code = r.tagged.code or ""
        if move:
            for x in r.responses:
                if x.kind == "status" and x.status == "OK" and x.code and x.code.startswith("COPYUID"):
                    code = x.code
        m = re.match(r"COPYUID (\d+) (\S*) (\S*)", code + " ")
        src_u, dst_u = [], []
        if m and m.group(2) and m.group(3):
            self.told_vv(d, int(m.group(1)), "COPYUID")
            src_u, dst_u = expand_uidset(m.group(2)), expand_uidset(m.group(3))
        if len(src_u) != len(dst_u):
            self.viol(["C05", "C02"], "copyuid-length-mismatch", f"{text}: {code}")
        if src_u != [t.uid for t in targets]:
            self.viol(["C05", "C15", "C03"], "copyuid-sources-differ", f"{text}: COPYUID sources {src_u}, addressed {[t.uid for t in targets]}")
        if any(a >= c for a, c in zip(dst_u, dst_u[1:])):
            self.viol(["C02"], "copyuid-destinations-not-ascending", f"{code}")
        new = []
        for t, du in zip(targets, dst_u):
            self._fresh_uid(d, du, "COPYUID")
            c = M(du, t.cid, set(t.flags), t.idate)
            d.msgs.append(c)
            self.reveal(d, du, t.cid, "COPYUID")
            new.append(c)
        self._mark_dirty(d, new, ss)
        self.stats["copies" if not move else "moves"] += 1
        self.stats["copied_msgs"] += len(new)
        if targets and len(targets) < len(b.msgs):
            self.stats["copy_proper_subset"] += 1
        if move:
            n_exp = sum(1 for x in r.responses if x.kind == "num" and x.name == "EXPUNGE")
            self._remove(b, targets, actor=ss)
        return r

    def deliver(self, name, n=1, unseen=True):
        """External MH agent adds messages (model: uid unknown until seen)."""
        b = self.boxes[name]
        msgs, new = [], []
        flags = []
        for i in range(n):
            cid, raw = self.cids.make(self.rnd, tag="ext")
            msgs.append(raw.replace(b"\r\n", b"\n") if self.rnd.random() < 0.5 else raw)
            u = unseen if isinstance(unseen, bool) else unseen[i]
            flags.append(u)
            m = M(None, cid, [] if u else ["\\Seen"])
            m.ext = True
            new.append(m)
        self.rig.deliver("inbox" if name == "INBOX" else name, msgs, unseen=flags)
        b.msgs.extend(new)
        self.note(f"external: deliver {n} to {name} unseen={flags}")
        self.stats["deliveries"] += 1
        self.stats["delivered_msgs"] += n
        return new

    async def deliver_then_fault(self, name, n=1):
        """A delivery after which the server's own rewrite of .mh_sequences --
        in the resync that notices the delivery -- fails once (no space left:
        the delivery used it up).  The messages must still be announced, with
        their flags, by a later resync."""
        from .rig import arm_failpoint, disarm_failpoint

        unseen = [self.rnd.random() < 0.7 for _ in range(n)]
        new = self.deliver(name, n, unseen=unseen)
        folder = "inbox" if name == "INBOX" else name
        arm_failpoint(f"/{folder}/.mh_sequences")
        self.no_probe = True
        try:
            await self.rig.advance(self.rnd.choice([6, 21]))
        finally:
            self.no_probe = False
            fired = disarm_failpoint()
        self.note(f"external: the server's rewrite of {name}/.mh_sequences failed once (ENOSPC)" if fired else "external: (armed write fault not reached)")
        self.stats["write_fault_delivered" if fired else "write_fault_not_reached"] += 1
        if fired:
            if not hasattr(self, "fault_boxes"):
                self.fault_boxes = set()
            self.fault_boxes.add(name)
        await self.rig.advance(self.rnd.choice([6, 21]))
        for s2 in self.sessions:
            s2.s.pump()
        return new

    async def deliver_torn(self, name, n=2):
        """A delivery during which the server looks at the folder while the
        agent is half-way through rewriting .mh_sequences (a cut-off range: the
        resync that sees it fails), and again once the agent is done.  The
        messages must then be announced like any other delivery."""
        b = self.boxes[name]
        msgs, new, flags = [], [], []
        for i in range(n):
            cid, raw = self.cids.make(self.rnd, tag="ext")
            msgs.append(raw.replace(b"\r\n", b"\n"))
            flags.append(True)
            m = M(None, cid, [])
            m.ext = True
            new.append(m)
        folder = "inbox" if name == "INBOX" else name
        st = self.rig.deliver_torn_begin(folder, msgs, flags)
        self.note(f"external: deliver {n} to {name}, .mh_sequences half-written")
        self.no_probe = True
        try:
            how = self.rnd.choice(["poll", "poll", "stranger"])
            if how == "stranger":
                z = self.rig.session("Z")
                r = await z.cmd("EXAMINE " + wire_name(name))
                self.note(f"Z: EXAMINE {name} -> {r.status}")
                if not z.writer.closed:
                    await z.cmd("LOGOUT")
            await self.rig.advance(self.rnd.choice([6, 21]))
        finally:
            self.no_probe = False
        self.rig.deliver_torn_end(st)
        b.msgs.extend(new)
        self.note(f"external: .mh_sequences of {name} complete")
        self.stats["deliveries"] += 1
        self.stats["torn_deliveries"] += 1
        self.stats["delivered_msgs"] += n
        await self.rig.advance(self.rnd.choice([6, 21]))
        for s2 in self.sessions:
            s2.s.pump()
        return new

    # ------------------------------------------------------------ namespace
    def rebump_pending(self):
        """A namespace command can touch a parent directory and thereby set
        its mtime back to the real clock, i.e. *below* the value the delivery
        agent gave it (the agent's bump runs ahead of the clock, see rig).
        Keep the property's precondition ("the folder's modification time has
        advanced") true for deliveries nobody has noticed yet."""
        for b in self.boxes.values():
            if not b.noselect and any(m.uid is None for m in b.msgs):
                try:
                    self.rig.bump_mtime("inbox" if b.name == "INBOX" else b.name)
                except OSError:
                    pass

    async def op_create(self, ss, name):
        r = await self._op_create(ss, name)
        self.rebump_pending()
        return r

    async def op_delete(self, ss, name):
        r = await self._op_delete(ss, name)
        self.rebump_pending()
        return r

    async def op_rename(self, ss, old, new):
        r = await self._op_rename(ss, old, new)
        self.rebump_pending()
        return r

    async def _op_create(self, ss, name):
        r = await self._cmd(ss, "CREATE " + wire_name(name))
        b = self.boxes.get(name)
        if r.ok:
            if b is not None and not b.noselect:
                self.viol(["C17"], "create-existing-accepted", name)
            if name == "INBOX":
                self.viol(["C17"], "create-inbox-accepted", name)
            parts = name.split("/")
            for i in range(1, len(parts) + 1):
                nm = "/".join(parts[:i])
                if nm not in self.boxes:
                    self.boxes[nm] = MBox(nm)
                    self.boxes[nm].vv = None
            if b is not None and b.noselect:
                b.noselect = False
                b.msgs = []
            self.subscribed_leaf_deleted.discard(name)
            self.stats["creates"] += 1
        return r

    async def _op_delete(self, ss, name):
        b = self.boxes.get(name)
        r = await self._cmd(ss, "DELETE " + wire_name(name))
        if r.ok:
            if b is None:
                self.viol(["C17"], "delete-missing-accepted", name)
            if name == "INBOX":
                self.viol(["C17"], "delete-inbox-accepted", name)
            if b.noselect and self.has_inferiors(name):
                self.viol(["C17"], "delete-placeholder-with-inferiors-accepted", name)
            for o in self.sessions:
                if o.selected == name:
                    o.selected = None
                    o.view = None
                    o.deleted_under = True
            if b.subscribed and not self.has_inferiors(name) and "keep-subscribed" not in self.tolerate:
                self.subscribed_leaf_deleted.add(name)
            if self.has_inferiors(name) or (b.subscribed and "keep-subscribed" in self.tolerate):
                b.noselect = True
                b.msgs = []
                b.vv = None
                b.uidnext_told = 0
            else:
                del self.boxes[name]
            self.stats["deletes"] += 1
        return r

    async def op_subscribe(self, ss, name, on=True):
        r = await self._cmd(ss, ("SUBSCRIBE " if on else "UNSUBSCRIBE ") + wire_name(name))
        b = self.boxes.get(name)
        if r.ok and b is not None:
            b.subscribed = on
        return r

    async def _op_rename(self, ss, old, new):
        b = self.boxes.get(old)
        r = await self._cmd(ss, f"RENAME {wire_name(old)} {wire_name(new)}")
        if r.ok:
            if b is None:
                self.viol(["C17"], "rename-missing-accepted", old)
            if new in self.boxes:
                self.viol(["C17"], "rename-onto-existing-accepted", f"{old} -> {new}")
            parts = new.split("/")
            for i in range(1, len(parts)):
                nm = "/".join(parts[:i])
                if nm not in self.boxes:
                    self.boxes[nm] = MBox(nm)
            if old == "INBOX":
                nb = MBox(new)
                # new mailbox, new UIDs; the property set does not fix the
                # internal date of messages re-homed by RENAME INBOX: learn it
                nb.msgs = [M(None, m.cid, m.flags, None) for m in b.msgs]
                self.boxes[new] = nb
                b.msgs = []
                self.stats["rename_inbox"] += 1
            else:
                for k in [k for k in self.boxes if k == old or k.startswith(old + "/")]:
                    mb = self.boxes.pop(k)
                    nk = new + k[len(old):]
                    hist = self.vv_history.setdefault(nk, [])
                    mb.name = nk
                    mb.arrived_by_rename = True
                    self.boxes[nk] = mb
                    if mb.vv is not None:
                        # the name had other incarnations: this one's UIDVALIDITY has to be larger than theirs
                        # (an incarnation that comes back to a name it had before is the same one)
                        others = [v for v in hist if self.vv_owner.get((nk, v)) is not mb]
                        if mb.vv in others:
                            self.viol(["C02"], "uidvalidity-not-larger-after-recreate", f"{nk}: renamed on to this name with UIDVALIDITY {mb.vv}, which another incarnation of the name already had ({others})")
                        hist.append(mb.vv)
                        self.vv_owner[(nk, mb.vv)] = mb
                        # ledger follows the incarnation under its new name
                        for (n_, v_, u_), c_ in list(self.ledger.items()):
                            if n_ == k and v_ == mb.vv:
                                self.ledger[(nk, v_, u_)] = c_
                    for o in self.sessions:
                        if o.selected == k:
                            o.selected = nk
                self.stats["renames"] += 1
        return r

    async def restart(self, kill=False):
        """kill=True: the process is killed at this (quiescent) point instead of shut down."""
        # half of the new starts include what a real process start does first: the scan of every recorded folder; now and then
        # the stat of one folder fails once during that scan (ESTALE: a spool on a network file system) -- the folder is there
        scan = self.opts.get("startup_scan", True) and self.rnd.random() < 0.5
        self.rig.startup_scan = scan
        self.rig.startup_stat_fault = None
        if scan and self.opts.get("startup_stat_fault", True) and self.rnd.random() < 0.4:
            cands = [b.name for b in self.boxes.values() if not b.noselect and b.name != "INBOX"]
            if cands:
                self.rig.startup_stat_fault = "/" + self.rnd.choice(cands)
                self.stats["restarts_with_a_stat_fault_in_the_scan"] += 1
        try:
            if kill:
                await self.rig.kill_restart()
                self.stats["kill_restarts"] += 1
            else:
                await self.rig.restart()
        finally:
            self.rig.startup_scan = False
            self.rig.startup_stat_fault = None
        if scan:
            self.stats["restarts_with_startup_scan"] += 1
        self.sessions = []
        self.obs = self.rig.session("O")
        for b in self.boxes.values():
            for m in b.msgs:
                m.flags.discard("\\Recent")
        self.note("== restart after a kill ==" if kill else "== orderly restart ==")
        self.stats["restarts"] += 1


    # ------------------------------------------------------------- disk (C13)
    def disk_state(self, name):
        """{key: cid} from the message files and the sequences as the stdlib
        MH parser (an MH tool) reads them."""
        import os

        folder = "inbox" if name == "INBOX" else name
        path = self.rig.maildir / folder
        keys = {}
        for fn in os.listdir(path):
            if fn.isdigit():
                with open(path / fn, "rb") as f:
                    m = re.search(rb"(?im)^X-CID:\s*(\S+)", f.read(4096))
                keys[int(fn)] = m.group(1).decode() if m else None
        seqs, _ = self.rig.disk_sequences(folder)
        return keys, seqs

    def _disk_recent(self, b):
        """Per position: is the message in the folder's `Recent` sequence?"""
        try:
            seqs, keys = self.rig.disk_sequences("inbox" if b.name == "INBOX" else b.name)
        except Exception:
            return None
        rec = seqs.get("Recent", set())
        return [k in rec for k in keys]

    def check_disk(self, name, where=""):
        """.mh_sequences mentions no missing message and shows the flags the
        sessions see."""
        b = self.boxes.get(name)
        if b is None or b.noselect:
            return
        try:
            keys, seqs = self.disk_state(name)
        except Exception as e:  # FormatError from the stdlib parser
            self.viol(["C13", "C04"], "mh-sequences-unreadable", f"{name}: {e!r} {where}")
        self.stats["disk_checks"] += 1
        for sname, members in seqs.items():
            ghost = sorted(k for k in members if k not in keys)
            if ghost:
                self.viol(["C13"], "mh-sequences-mention-missing-message", f"{name}: sequence {sname} lists {ghost}, files are {sorted(keys)} {where}", sequence=sname)
        ks = sorted(keys)
        if [keys[k] for k in ks] != [m.cid for m in b.msgs]:
            self.viol(["C05", "C13"], "folder-files-differ-from-model", f"{name}: files {[(k, keys[k]) for k in ks]} model {[m.cid for m in b.msgs]} {where}")
        for k, m in zip(ks, b.msgs):
            if m.uid is None:
                continue
            want = set(f for f in m.flags if f != "\\Recent")
            have = set()
            if k not in seqs.get("unseen", set()):
                have.add("\\Seen")
            for sname, flag in (("replied", "\\Answered"), ("flagged", "\\Flagged"), ("Deleted", "\\Deleted"), ("Draft", "\\Draft")):
                if k in seqs.get(sname, set()):
                    have.add(flag)
            for sname, members in seqs.items():
                if sname in ("unseen", "Seen", "replied", "flagged", "Deleted", "Draft", "Recent"):
                    continue
                if k in members:
                    have.add(sname)
            if ("\\Seen" in have) != (k in seqs.get("Seen", set())) and "Seen" in seqs:
                self.viol(["C04", "C13"], "seen-unseen-not-complementary-on-disk", f"{name} key {k}: unseen={k in seqs.get('unseen', set())} Seen={k in seqs.get('Seen', set())} {where}",
                          flags_used=sorted(self.flags_used))
            if have != want:
                self.viol(["C13", "C04"], "mh-sequences-differ-from-flags", f"{name} key {k} ({m.cid}): .mh_sequences says {sorted(have)}, sessions see {sorted(want)} {where}",
                          extra=sorted(have - want), missing=sorted(want - have), flags_used=sorted(self.flags_used))
            self.stats["disk_flag_compares"] += 1

    # ------------------------------------------------ seq/UID differential
    async def op_probe_pairs(self, ss):
        """FETCH 1:* and UID FETCH 1:* return the same (seq, uid, cid)."""
        if ss.view is None or not ss.view:
            return
        b = self.boxes[ss.selected]
        r1 = await self._cmd(ss, "FETCH 1:* (UID BODY.PEEK[HEADER.FIELDS (X-CID)])", kind="FETCH")
        if r1.status == "NO":
            return
        r2 = await self._cmd(ss, "UID FETCH 1:* (UID BODY.PEEK[HEADER.FIELDS (X-CID)])")
        t1 = sorted((n, d.get("UID"), cid_of_fetch(d)) for n, d in r1.fetches() if "UID" in d and any(k.startswith("BODY[") for k in d))
        t2 = sorted((n, d.get("UID"), cid_of_fetch(d)) for n, d in r2.fetches() if "UID" in d and any(k.startswith("BODY[") for k in d))
        self.stats["seq_uid_pair_probes"] += 1
        if t1 != t2:
            self.viol(["C03", "C15"], "seq-and-uid-forms-differ", f"{ss.name}: FETCH {t1} vs UID FETCH {t2}")
        for n, u, c in t1:
            mm = b.by_uid(u)
            if mm is not None and mm.cid != c:
                self.viol(["C03"], "uid-names-other-message", f"{b.name}: UID {u} is {mm.cid} in the model, server returned {c}")
            self.reveal(b, u, c, "pair probe")

    # --------------------------------------------------- Obs(server) (C12)
    async def obs_snapshot(self):
        o = self.obs
        if o.writer.closed or o.wire_error:
            self.obs = o = self.rig.session("O")
        snap = {"list": {}, "lsub": set(), "boxes": {}}
        r = await o.cmd('LIST "" *')
        for x in r.untagged("LIST"):
            nm = self._decode_name(x.data["name"])
            attrs = set(a for a in x.data["attrs"] if a not in ("\\Marked", "\\Unmarked"))
            snap["list"][nm] = sorted(attrs)
        r = await o.cmd('LSUB "" *')
        for x in r.untagged("LSUB"):
            snap["lsub"].add(self._decode_name(x.data["name"]))
        snap["lsub"] = sorted(snap["lsub"])
        for nm, attrs in snap["list"].items():
            if "\\Noselect" in attrs:
                continue
            r = await o.cmd(f"STATUS {wire_name(nm)} (MESSAGES UIDNEXT UIDVALIDITY UNSEEN)")
            st = None
            for x in r.untagged("STATUS"):
                st = dict(x.data["atts"])
            r = await o.cmd("EXAMINE " + wire_name(nm))
            rows = []
            if r.ok:
                ex = [x.num for x in r.responses if x.kind == "num" and x.name == "EXISTS"]
                if ex and ex[-1]:
                    rf = await o.cmd("UID FETCH 1:* (UID FLAGS)")
                    for n, d in sorted(rf.fetches(), key=lambda t: t[0]):
                        rows.append((n, d.get("UID"), sorted(f for f in d.get("FLAGS", []) if canon_flag(f) != "\\Recent")))
                await o.cmd("UNSELECT")
            snap["boxes"][nm] = {"status": st, "rows": rows, "selectable": r.ok}
        self.stats["obs_snapshots"] += 1
        return snap


    async def op_search_flag(self, ss, key):
        """SEARCH <flag key> agrees with the model (C04 clause 4)."""
        b = self.boxes[ss.selected]
        await self.learn_uids(b)
        r = await self._cmd(ss, "SEARCH " + key, kind="SEARCH")
        if r.status == "NO" and "pending" in (r.tagged.text or "").lower():
            self.stats["refused_pending_expunge"] += 1
            return r
        if not r.ok:
            self.viol(["C14", "C06"], "search-refused", f"SEARCH {key} -> {r.brief()}")
        got = set()
        for x in r.untagged("SEARCH"):
            got.update(x.data)
        neg = key.startswith("UN")
        k = key[2:] if neg else key
        if k == "SEEN" and not neg or key == "UNSEEN":
            flag = "\\Seen"
        elif k.startswith("KEYWORD "):
            flag = k.split(" ", 1)[1]
        else:
            flag = {"DELETED": "\\Deleted", "FLAGGED": "\\Flagged", "ANSWERED": "\\Answered", "DRAFT": "\\Draft", "RECENT": None}.get(k)
        if flag is None:
            self.stats["search_recent"] += 1
            return r
        if ss.nview() != len(b.msgs):
            return r  # the session's numbering is behind; nothing to compare against
        want = set()
        for i, m in enumerate(b.msgs):
            has = flag in m.flags
            if has != neg:
                want.add(i + 1)
        self.stats["flag_search_compares"] += 1
        if got != want:
            self.viol(["C04", "C14"], "search-disagrees-with-flags", f"{ss.name}: SEARCH {key} -> {sorted(got)}, model {sorted(want)} {b.msgs}")
        return r
