"""Virtual-time event loop (VLoop) and deterministic scheduler loop (SLoop).

VLoop: time() is virtual.  When the ready queue is empty and no thread job
(executor job or aiosqlite request) is in flight, virtual time jumps to the
earliest timer.  Thread work therefore costs zero virtual time and a slow
disk can never fire a virtual time-out.

SLoop: additionally parks every completion that comes from another thread
and lets a strategy decide, at each quiescent point, which parked completions
are released (and in which order) or whether a harness event is delivered.
"""
import asyncio
import concurrent.futures
import heapq
import queue
import random
import threading
import time

import aiosqlite.core as _aqc


class WallWatchdog(RuntimeError):
    """The per-case wall-clock budget ran out: verdict is *inconclusive*."""


class VLoop(asyncio.SelectorEventLoop):
    def __init__(self, wall_budget=120.0):
        super().__init__()
        self._vt = 1000.0
        self._tid = threading.get_ident()
        self._lk = threading.Lock()
        self._inflight = 0
        self._ex = concurrent.futures.ThreadPoolExecutor(
            max_workers=4, thread_name_prefix="vex"
        )
        self.wall_deadline = time.monotonic() + wall_budget
        self.jumps = 0
        self.db_thread_ids = set()

    # ------------------------------------------------------------------ time
    def time(self):
        return self._vt

    # ------------------------------------------------- submission accounting
    def _inc(self):
        with self._lk:
            self._inflight += 1

    def _dec(self):
        with self._lk:
            self._inflight -= 1

    def run_in_executor(self, executor, func, *args):
        fut = self.create_future()
        self._inc()

        def job():
            try:
                r = func(*args)

                def comp():
                    if not fut.done():
                        fut.set_result(r)

            except BaseException as e:  # noqa: B036

                def comp(e=e):
                    if not fut.done():
                        fut.set_exception(e)

            self._complete("ex", comp)

        self._ex.submit(job)
        return fut

    def _complete(self, source, comp):
        """Called on a foreign thread when a job has finished."""
        # append + decrement atomically w.r.t. the loop's quiescence test
        # (otherwise the loop can run the completion, find the ready queue
        # empty while the count is still 1, and sleep in select() for real)
        with self._lk:
            try:
                asyncio.SelectorEventLoop.call_soon_threadsafe(self, comp)
            finally:
                self._inflight -= 1

    def db_submitted(self):
        self._inc()

    def call_soon_threadsafe(self, callback, *args, context=None):
        if threading.get_ident() != self._tid and not threading.current_thread().name.startswith("vex"):
            # only the aiosqlite worker thread reaches here
            self.db_thread_ids.add(threading.get_ident())
            self._complete("db", lambda: callback(*args))
            return None
        return super().call_soon_threadsafe(callback, *args, context=context)

    # ---------------------------------------------------------------- engine
    def _next_timer(self):
        while self._scheduled and self._scheduled[0]._cancelled:
            h = heapq.heappop(self._scheduled)
            h._scheduled = False
            self._timer_cancelled_count -= 1
        return self._scheduled[0]._when if self._scheduled else None

    def _run_once(self):
        if not self._ready:
            if time.monotonic() > self.wall_deadline:
                raise WallWatchdog("wall budget exhausted")
            # read the in-flight count and the ready queue under the lock the
            # completions are delivered under: otherwise a completion that lands
            # between the `not self._ready` test above and this point (appended,
            # count already back to 0) would let the clock jump to the next timer
            # -- typically the command's own time-out -- with real work pending
            with self._lk:
                infl = self._inflight
                still_empty = not self._ready
            if infl <= 0 and still_empty:
                when = self._next_timer()
                if when is not None and when > self._vt:
                    self._vt = when
                    self.jumps += 1
        super()._run_once()

    def close(self):
        self._ex.shutdown(wait=False)
        super().close()


class CountingQueue:
    """Stand-in for aiosqlite.core.SimpleQueue that tells the loop about
    every request handed to the database thread."""

    loop = None

    def __init__(self):
        self.q = queue.SimpleQueue()

    def put_nowait(self, item):
        if item[0] is not None and CountingQueue.loop is not None:
            CountingQueue.loop.db_submitted()
        self.q.put_nowait(item)

    def get(self, *a, **k):
        return self.q.get(*a, **k)

    def empty(self):
        return self.q.empty()


def install_counting_queue():
    _aqc.SimpleQueue = CountingQueue


class SLoop(VLoop):
    """VLoop + parked completions + pluggable strategy.

    strategy(loop, pool) -> ordered list of indexes into pool to release now
    (non-empty), honouring FIFO among 'db' items.  `pool` is a list of
    (source, seqno).  Choices are appended to self.trace.
    """

    def __init__(self, seed=0, strategy=None, wall_budget=120.0):
        super().__init__(wall_budget=wall_budget)
        self._pool = []
        self._seq = 0
        self.rng = random.Random(seed)
        self.trace = []
        self.strategy = strategy or random_strategy
        self.replay = None  # list of choices to replay
        self.decisions = 0
        self.multi_choice_points = 0

    def _complete(self, source, comp):
        with self._lk:
            self._seq += 1
            self._pool.append((source, self._seq, comp))
            self._inflight -= 1
        self._write_to_self()

    def _run_once(self):
        if not self._ready:
            while True:
                with self._lk:
                    infl = self._inflight
                if infl <= 0:
                    break
                if time.monotonic() > self.wall_deadline:
                    raise WallWatchdog("in-flight work never drained")
                time.sleep(0.00005)
            with self._lk:
                pool = list(self._pool)
            if pool:
                if self.replay is not None and self.decisions < len(self.replay) and all(0 <= i < len(pool) for i in self.replay[self.decisions]) and self.replay[self.decisions]:
                    order = list(self.replay[self.decisions])
                else:
                    order = self.strategy(self, [(p[0], p[1]) for p in pool])
                order = _fifo_db(pool, order)
                self.decisions += 1
                if len(pool) > 1:
                    self.multi_choice_points += 1
                self.trace.append(tuple(order))
                self.db_completions = getattr(self, "db_completions", 0) + sum(1 for i in order if pool[i][0] == "db")
                with self._lk:
                    for i in sorted(order, reverse=True):
                        self._pool.pop(i)
                for i in order:
                    asyncio.SelectorEventLoop.call_soon(self, pool[i][2])
        VLoop._run_once(self)


def _fifo_db(pool, order):
    """Force chosen db completions to be a FIFO prefix of the parked ones."""
    db_all = [i for i, p in enumerate(pool) if p[0] == "db"]
    ndb = sum(1 for i in order if pool[i][0] == "db")
    dbs = iter(db_all[:ndb])
    return [next(dbs) if pool[i][0] == "db" else i for i in order]


def random_strategy(loop, pool):
    n = len(pool)
    k = loop.rng.randint(1, n)
    idxs = loop.rng.sample(range(n), k)
    return idxs


def fifo_all_strategy(loop, pool):
    return list(range(len(pool)))


def one_at_a_time_strategy(loop, pool):
    return [loop.rng.randrange(len(pool))]


def make_slow_db_strategy(k):
    """Injected delay at an existing suspension point: the k-th database round
    trip of the run is slow -- its completion (and, the database thread being one
    FIFO, every later one) is held back for as long as anything else can happen;
    everything else is delivered as it comes.  A possible timing of the real
    program: one statement that takes long."""

    def slow_db_strategy(loop, pool):
        done = getattr(loop, "_db_released", 0)
        db = [i for i, p in enumerate(pool) if p[0] == "db"]
        other = [i for i, p in enumerate(pool) if p[0] != "db"]
        out = []
        if db and done <= k < done + len(db):
            # the slow one is parked here: release what precedes it, and everything that is not a database completion
            out = db[: k - done] + other
            if not out:
                out = db  # nothing else can happen: the slow statement completes
                loop._slow_db_hit = True
        else:
            out = list(range(len(pool)))
        loop._db_released = done + sum(1 for i in out if pool[i][0] == "db")
        return out

    slow_db_strategy.__name__ = f"slow_db_{k}"
    return slow_db_strategy
