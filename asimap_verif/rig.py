"""The rig: the real per-user server in process, clients at the byte boundary.

Rig does what IMAPUserServer.run() does minus sockets and real sleeps.  Each
session owns a genuine asyncio.StreamReader (commands are fed framed exactly
as the root process frames them) and a recording writer.  Every byte a
session receives is parsed by the strict response parser (wire.py); parse
errors are recorded in rig.wire_errors (that is C07's monitor, attached to
every workload of every check).
"""
import asyncio
import logging
import mailbox
import os
import random
import re
import shutil
import sys
import time
from pathlib import Path

from . import REPO  # noqa: F401  (sets sys.path)
from . import wire
from .vloop import CountingQueue, SLoop, VLoop, install_counting_queue

install_counting_queue()

from asimap.user_server import IMAPUserServer  # noqa: E402
from asimap.mh import MH  # noqa: E402
import asimap.client as _client  # noqa: E402

REPLY_LIMIT_VT = 400.0  # virtual seconds we wait for a tagged reply


# ---------------------------------------------------------------- guard
_GUARD = {"roots": None, "violations": [], "armed": False, "installed": False, "log": None}
_MUT_EVENTS = {
    "os.remove", "os.rename", "os.mkdir", "os.rmdir", "os.symlink", "os.utime",
    "os.chmod", "os.truncate", "os.link", "shutil.rmtree", "os.chown",
}


def _guard_hook(ev, args):
    g = _GUARD
    if not g["armed"]:
        return
    paths = ()
    if ev == "open":
        p, mode, flags = args
        if not isinstance(p, (str, bytes)) or not isinstance(flags, int):
            return
        if not (flags & (os.O_WRONLY | os.O_RDWR | os.O_CREAT | os.O_TRUNC | os.O_APPEND)):
            return
        paths = (p,)
    elif ev in _MUT_EVENTS:
        # (os.symlink(src, dst): src is what the link will contain, not a file that is touched -- and when it is relative
        # it is relative to the link, not to our working directory)
        paths = tuple(a for a in (args[1:2] if ev == "os.symlink" else args[:2]) if isinstance(a, (str, bytes, os.PathLike)))
    else:
        return
    dir_fds = [a for a in args[1:] if isinstance(a, int) and not isinstance(a, bool) and ev != "open" and ev not in ("os.chmod", "os.mkdir") and a >= 0]
    if ev == "os.mkdir" and len(args) > 2 and isinstance(args[2], int) and args[2] >= 0:
        dir_fds = [args[2]]
    for p in paths:
        try:
            ps = os.fsdecode(p)
            if not os.path.isabs(ps) and dir_fds:
                ps = os.path.join(os.readlink("/proc/self/fd/%d" % dir_fds[0]), ps)
            ps = os.path.realpath(ps)
        except Exception:
            continue
        if ps.startswith(("/dev/", "/proc/")):
            continue
        if not any(ps == r or ps.startswith(r + "/") for r in g["roots"]):
            g["violations"].append((ev, ps))
            raise PermissionError(f"asimap-verif guard: {ev} outside scratch: {ps}")


def install_guard(roots):
    """Belt 2 of DESIGN 3.9: refuse every mutating file operation whose
    resolved path is outside the given roots (the process runs as root and
    asimap accepts names such as '..')."""
    _GUARD["roots"] = [os.path.realpath(r) for r in roots]
    _GUARD["armed"] = True
    if not _GUARD["installed"]:
        sys.addaudithook(_guard_hook)
        _GUARD["installed"] = True


def guard_violations():
    return list(_GUARD["violations"])


# ---------------------------------------------------------------- failpoint
# One-shot fault at a hook that needs no source change: the next time the process
# opens a file whose path ends in `suffix` for writing, the open fails with ENOSPC
# (the audit hook raises; the call never reaches the file system).
_FAIL = {"spec": None, "installed": False, "fired": 0}


def _fail_hook(ev, args):
    sp = _FAIL["spec"]
    if sp is None or ev != "open":
        return
    p, _mode, flags = args
    if not isinstance(p, (str, bytes)) or not isinstance(flags, int):
        return
    if not (flags & (os.O_WRONLY | os.O_RDWR | os.O_CREAT | os.O_TRUNC | os.O_APPEND)):
        return
    ps = os.fsdecode(p)
    if ps.endswith(sp["suffix"]):
        _FAIL["spec"] = None
        _FAIL["fired"] += 1
        import errno

        raise OSError(errno.ENOSPC, "No space left on device (asimap-verif failpoint)", ps)


_STAT = {"suffix": None, "installed": False, "fired": 0, "orig": None}


def arm_stat_fault(suffix):
    """One-shot fault: the next os.stat() of a path ending in `suffix` fails
    with ESTALE (a mail spool on a network file system).  os.stat raises no audit
    event, so the standard library function itself is wrapped (harness side)."""
    import errno

    if not _STAT["installed"]:
        orig = os.stat
        _STAT["orig"] = orig

        def stat(path, *a, **kw):
            sfx = _STAT["suffix"]
            if sfx is not None and isinstance(path, (str, bytes, os.PathLike)) and os.fsdecode(path).endswith(sfx):
                _STAT["suffix"] = None
                _STAT["fired"] += 1
                raise OSError(errno.ESTALE, os.strerror(errno.ESTALE) + " (asimap-verif failpoint)", os.fsdecode(path))
            return orig(path, *a, **kw)

        os.stat = stat
        _STAT["installed"] = True
    _STAT["suffix"] = suffix


def disarm_stat_fault():
    fired = _STAT["suffix"] is None
    _STAT["suffix"] = None
    return fired


def arm_failpoint(suffix):
    if not _FAIL["installed"]:
        sys.addaudithook(_fail_hook)
        _FAIL["installed"] = True
    _FAIL["spec"] = {"suffix": suffix}


def disarm_failpoint():
    """Returns True when the armed fault was delivered."""
    fired = _FAIL["spec"] is None
    _FAIL["spec"] = None
    return fired


# ---------------------------------------------------------------- writer
class MemWriter:
    _seq = 0

    def __init__(self, name, loop):
        self.name = name
        self.buf = bytearray()
        self.chunks = []  # (global seq, vt, start offset, length)
        self.closed = False
        self.ev = asyncio.Event()
        self.loop = loop
        self.stall_ev = None

    def write(self, d):
        MemWriter._seq += 1
        self.chunks.append((MemWriter._seq, self.loop.time(), len(self.buf), len(d)))
        self.buf += d
        self.ev.set()

    async def drain(self):
        # a slow reader: while `stall_ev` is set to an (unset) Event the peer's
        # drain() blocks, which keeps its command executing (the server gives
        # up after 2 s of *virtual* time and closes the connection)
        if self.stall_ev is not None:
            await self.stall_ev.wait()
        else:
            await asyncio.sleep(0)

    def is_closing(self):
        return self.closed

    def close(self):
        self.closed = True
        self.ev.set()

    async def wait_closed(self):
        return

    def get_extra_info(self, k, default=None):
        extra = getattr(self, "extra", None)
        if extra is not None and k in extra:
            return extra[k]
        return ("127.0.0.1", 40000) if k == "peername" else default


class CmdResult:
    __slots__ = ("tag", "text", "status", "tagged", "responses", "raw", "latency", "sent_vt", "closed", "noreply", "cont")

    def __init__(self, **kw):
        for k in self.__slots__:
            setattr(self, k, kw.get(k))

    @property
    def ok(self):
        return self.status == "OK"

    def untagged(self, name=None, kind=None):
        return [r for r in self.responses if r.kind != "tagged" and (name is None or r.name == name) and (kind is None or r.kind == kind)]

    def fetches(self):
        return [(r.num, dict(r.data)) for r in self.responses if r.kind == "num" and r.name == "FETCH"]

    def code(self):
        return self.tagged.code if self.tagged is not None else None

    def brief(self):
        return f"{self.text!r:.70} -> {self.status} {(self.tagged.text if self.tagged else '')!r:.60}"


class ImapSession:
    def __init__(self, rig, name):
        self.rig = rig
        self.name = name
        self.reader = asyncio.StreamReader()
        self.writer = MemWriter(name, rig.loop)
        self.pos = 0  # octets parsed so far
        self.tagn = 0
        self.responses = []  # every Resp ever received, in order
        self.resp_vt = []
        self.listeners = []  # callables(resp) invoked for every response in order
        self.wire_error = None
        self.idle_tag = None
        self.sent = []  # (tag, text, vt)
        self.log = []  # human-readable transcript for witnesses
        # view-sanity monitor (C01, always on): size of the session's view as
        # told by the server; None = no mailbox selected
        self.view_n = None
        self.view_flags = None  # per position: the flags this session was last told (None = never told), C04's belief monitor
        self._selecting = {}  # tag -> True for SELECT/EXAMINE in flight
        self._closing = set()  # tags of CLOSE/UNSELECT in flight
        self._silent = set()  # tags of STORE ... .SILENT in flight
        self.view_errors = []
        rig.server.new_client(self.reader, self.writer)
        rig.sessions.append(self)

    def _view_monitor(self, r):
        """Every untagged EXISTS/EXPUNGE/FETCH must make sense for the view
        this session has been told about: EXISTS never shrinks it, EXPUNGE and
        FETCH name positions inside it."""
        if r.kind == "num":
            self.rig.counts["view_monitor_events"] += 1
            if r.name == "EXISTS":
                if self.view_n is not None and r.num < self.view_n and not self._selecting:
                    self.view_errors.append(f"{self.name}: EXISTS {r.num} below the current view size {self.view_n}")
                if self.view_flags is None or self._selecting or r.num < len(self.view_flags):
                    self.view_flags = [None] * r.num  # a (re-)selection starts a new view
                else:
                    self.view_flags.extend([None] * (r.num - len(self.view_flags)))
                self.view_n = r.num
            elif r.name == "EXPUNGE":
                if self.view_n is not None and 1 <= r.num <= self.view_n:
                    self.view_n -= 1
                    if self.view_flags is not None and r.num <= len(self.view_flags):
                        del self.view_flags[r.num - 1]
                elif not self._selecting:  # (while a SELECT is in flight the data may still concern the previous mailbox)
                    self.view_errors.append(f"{self.name}: EXPUNGE {r.num} outside the view (size {self.view_n})")
            elif r.name == "FETCH":
                if (self.view_n is None or not (1 <= r.num <= self.view_n)) and not self._selecting:
                    self.view_errors.append(f"{self.name}: FETCH {r.num} outside the view (size {self.view_n})")
                elif self.view_flags is not None and 1 <= r.num <= len(self.view_flags) and not self._selecting:
                    try:
                        d_ = dict(r.data)
                    except Exception:
                        d_ = {}
                    if "FLAGS" in d_:
                        self.view_flags[r.num - 1] = (sorted(str(f) for f in d_["FLAGS"] if str(f) not in ("\\Recent", "unseen")), d_.get("UID"))
        elif r.kind == "tagged":
            if r.tag in self._selecting:
                del self._selecting[r.tag]
                if r.status != "OK":
                    self.view_n = None
                    self.view_flags = None
            elif r.tag in self._closing:
                self._closing.discard(r.tag)
                if r.status == "OK":
                    self.view_n = None
                    self.view_flags = None
            elif r.tag in self._silent:
                self._silent.discard(r.tag)
                if self.view_flags is not None:
                    self.view_flags = [None] * len(self.view_flags)

    # -- low level
    def feed(self, data: bytes):
        self.reader.feed_data(b"{%d}\n" % len(data) + data)

    def eof(self):
        self.reader.feed_eof()

    def pump(self):
        """Parse newly received octets; returns list of new Resp."""
        if self.wire_error is not None:
            return []
        buf = self.writer.buf
        if self.pos >= len(buf):
            return []
        resps, npos, err = wire.parse_stream(buf, self.pos)
        self.pos = npos
        vt = self.rig.loop.time()
        for r in resps:
            self.responses.append(r)
            self.resp_vt.append(vt)
            self.rig.counts["resp:" + (r.name or r.kind)] += 1
            for d_ in (r.diag or ()):
                self.rig.counts["leniency:" + d_] += 1
            self._view_monitor(r)
            for fn in self.listeners:
                fn(self, r)
        self.rig.counts["bytes_parsed"] = self.rig.counts.get("bytes_parsed", 0) + 0
        if err is not None:
            self.wire_error = err
            self.rig.wire_errors.append({"session": self.name, "rule": err.rule, "msg": err.msg, "context": err.context.decode("latin-1"), "after": [s[1][:80] if isinstance(s[1], str) else repr(s[1][:80]) for s in self.sent[-2:]]})
        return resps

    def trailing(self):
        """Octets received but not forming a complete response."""
        return bytes(self.writer.buf[self.pos :])

    # -- commands
    def next_tag(self):
        self.tagn += 1
        return f"{self.name}{self.tagn}"

    async def cmd(self, text, wait=True, expect_cont=False):
        """Send `text` (str or bytes, without tag) and wait for the tagged
        reply.  For IDLE pass expect_cont=True: returns at '+'."""
        tag = self.next_tag()
        data = tag.encode() + b" " + (text.encode("latin-1") if isinstance(text, str) else text)
        self.pump()
        first_new = len(self.responses)
        start_off = len(self.writer.buf)
        t0 = self.rig.loop.time()
        shown = text if isinstance(text, str) else text[:100].decode("latin-1")
        self.sent.append((tag, shown, t0))
        verb = shown.split(None, 1)[0].upper() if shown.strip() else ""
        if verb in ("SELECT", "EXAMINE"):
            self._selecting[tag] = True
        elif verb in ("CLOSE", "UNSELECT"):
            self._closing.add(tag)
        elif ".SILENT" in shown.upper() and "STORE" in shown.upper().split()[:2]:
            self._silent.add(tag)  # the client asked not to be told the outcome: it no longer knows these flags from the server
        self.log.append(f"C: {tag} {shown}")
        for fn in self.rig.on_send:
            fn(self, tag, shown)
        self.feed(data)
        if not wait:
            return tag
        return await self.wait_reply(tag, shown, first_new, start_off, t0, expect_cont)

    async def wait_reply(self, tag, shown, first_new, start_off, t0, expect_cont=False):
        loop = self.rig.loop
        tagged = None
        cont = None
        idx = first_new
        while True:
            self.pump()
            while idx < len(self.responses):
                r = self.responses[idx]
                idx += 1
                if r.kind == "tagged" and r.tag == tag:
                    tagged = r
                    break
                if expect_cont and r.kind == "cont":
                    cont = r
                    break
            if tagged is not None or cont is not None:
                break
            if self.writer.closed or self.wire_error is not None:
                break
            if loop.time() - t0 > REPLY_LIMIT_VT:
                break
            self.writer.ev.clear()
            try:
                await asyncio.wait_for(self.writer.ev.wait(), 30)
            except asyncio.TimeoutError:
                pass
        lat = loop.time() - t0
        # latency: virtual time of the write that carried the tagged line
        resps = self.responses[first_new:idx]
        raw = bytes(self.writer.buf[start_off : self.pos])
        res = CmdResult(
            tag=tag, text=shown, status=(tagged.status if tagged else ("CONT" if cont else ("CLOSED" if self.writer.closed else ("WIREERR" if self.wire_error else "NOREPLY")))),
            tagged=tagged, responses=resps, raw=raw, latency=lat, sent_vt=t0,
            closed=self.writer.closed, noreply=(tagged is None and cont is None), cont=cont,
        )
        for r in resps:
            self.log.append("S: " + r.raw[:160].decode("latin-1").rstrip("\r\n"))
        if tagged is None and cont is None:
            self.log.append(f"S: <<{res.status}>> trailing={self.trailing()[:120]!r}")
        self.rig.counts["cmd"] += 1
        for fn in self.rig.on_reply:
            fn(self, res)
        return res

    async def append(self, mbox, msg: bytes, flags=None, date=None, sync=False):
        parts = [b"APPEND ", mbox.encode("latin-1") if isinstance(mbox, str) else mbox]
        if flags is not None:
            parts.append(b" (" + " ".join(flags).encode("latin-1") + b")")
        if date is not None:
            parts.append(b' "' + date.encode() + b'"')
        parts.append(b" {%d%s}\r\n" % (len(msg), b"" if sync else b"+"))
        parts.append(msg)
        return await self.cmd(b"".join(parts))

    async def idle(self):
        r = await self.cmd("IDLE", expect_cont=True)
        if r.status == "CONT":
            self.idle_tag = r.tag
        return r

    async def done(self):
        tag = self.idle_tag
        self.idle_tag = None
        self.pump()
        first_new = len(self.responses)
        start_off = len(self.writer.buf)
        t0 = self.rig.loop.time()
        self.log.append("C: DONE")
        for fn in self.rig.on_send:
            fn(self, None, "DONE")
        self.feed(b"DONE")
        return await self.wait_reply(tag, "DONE", first_new, start_off, t0)

    async def settle(self):
        """Let the loop run until nothing is immediately runnable; parse."""
        await self.rig.settle()
        return self.pump()


class Pop3Session:
    MULTI = {"LIST", "UIDL", "RETR", "TOP", "CAPA"}

    def __init__(self, rig, name):
        self.rig = rig
        self.name = name
        self.reader = asyncio.StreamReader()
        self.writer = MemWriter(name, rig.loop)
        self.pos = 0
        self.replies = []
        self.log = []
        self.wire_error = None
        rig.server.new_client(self.reader, self.writer)
        self.reader.feed_data(b"{4}\nPOP3")
        rig.pop3_sessions.append(self)

    def feed(self, data: bytes):
        self.reader.feed_data(b"{%d}\n" % len(data) + data)

    def eof(self):
        self.reader.feed_eof()

    async def cmd(self, line: str):
        word = line.split(" ", 1)[0].upper()
        has_arg = len(line.split()) > 1
        multi = word in ("RETR", "TOP", "CAPA") or (word in ("LIST", "UIDL") and not has_arg)
        self.log.append("C: " + line)
        loop = self.rig.loop
        t0 = loop.time()
        self.feed(line.encode("latin-1"))
        rep = None
        while True:
            try:
                rep, npos = wire.parse_pop3_reply(bytes(self.writer.buf), self.pos, multi)
                self.pos = npos
                break
            except wire.Incomplete:
                pass
            except wire.WireError as e:
                self.wire_error = e
                self.rig.wire_errors.append({"session": self.name, "rule": e.rule, "msg": e.msg, "context": e.context.decode("latin-1"), "after": [line]})
                break
            if self.writer.closed or loop.time() - t0 > REPLY_LIMIT_VT:
                break
            self.writer.ev.clear()
            try:
                await asyncio.wait_for(self.writer.ev.wait(), 30)
            except asyncio.TimeoutError:
                pass
        self.rig.counts["pop3cmd"] += 1
        if rep is not None:
            self.replies.append(rep)
            self.log.append("S: " + rep.line + (f" [{len(rep.body)} octets]" if rep.body is not None else ""))
        else:
            self.log.append("S: <<no reply>> closed=%s" % self.writer.closed)
        return rep

    def trailing(self):
        return bytes(self.writer.buf[self.pos :])


class _StubAsyncioServer:
    def close(self):
        pass

    async def wait_closed(self):
        pass

    def is_serving(self):
        return False


class LogCapture(logging.Handler):
    def __init__(self, rig):
        super().__init__(level=logging.WARNING)
        self.rig = rig

    def emit(self, record):
        try:
            msg = record.getMessage()
        except Exception:
            msg = str(record.msg)
        if record.exc_info and record.exc_info[2] is not None:
            import traceback as _tb

            fr = _tb.extract_tb(record.exc_info[2])
            msg += " @ " + " < ".join(f"{os.path.basename(f.filename)}:{f.lineno}:{f.name}" for f in reversed(fr[-4:]))
        self.rig.log_records.append((record.name, record.levelname, msg, self.rig.loop.time() if self.rig.loop else 0))
        if "command timed out" in msg:
            self.rig.watchdog_hits.append(msg)


class Rig:
    def __init__(self, maildir, loop):
        from collections import Counter

        self.maildir = Path(maildir)
        self.loop = loop
        self.server = None
        self.sessions = []
        self.pop3_sessions = []
        self.counts = Counter()
        self.wire_errors = []
        self.log_records = []
        self.watchdog_hits = []
        self.on_send = []
        self.on_reply = []
        self.fake_mtime = 0
        self.restarts = 0
        self._logh = LogCapture(self)
        self._nsess = 0

    async def start(self, user_mgmt=False):
        lg = logging.getLogger("asimap")
        if self._logh not in lg.handlers:
            lg.addHandler(self._logh)
        (self.maildir).mkdir(parents=True, exist_ok=True)
        if not (self.maildir / "inbox").exists():
            MH(self.maildir / "inbox")
        self.server = await IMAPUserServer.new(self.maildir)
        await self.server.find_all_folders()
        if getattr(self, "startup_scan", False):
            # what the server's management task does first when the process starts (IMAPUserServer.run()): every folder
            # recorded in the database is looked at once, whatever its mtime
            self.server.initial_folder_scan = True
            sfx = getattr(self, "startup_stat_fault", None)
            if sfx:
                arm_stat_fault(sfx)  # (armed for the scan only)
            try:
                await self.server.check_all_folders()
            finally:
                self.server.initial_folder_scan = False
                if sfx:
                    self.counts["startup_stat_fault_delivered" if disarm_stat_fault() else "startup_stat_fault_not_reached"] += 1
            self.counts["startup_scans"] += 1
        if user_mgmt:
            self.server.asyncio_server = _StubAsyncioServer()
            self.server.management_task = asyncio.create_task(self.server.user_server_management_task())
            await self.settle()
        return self

    async def stop(self):
        if self.server is not None:
            srv = self.server
            self.server = None
            await srv.shutdown()
        logging.getLogger("asimap").removeHandler(self._logh)

    async def kill(self):
        """What a kill of the user process leaves behind, approximated in process:
        nothing of shutdown() runs -- no final commit of any mailbox, no
        commit of the connection; tasks are cancelled, the SQLite connection is
        closed as it is (uncommitted work is rolled back).  Only used at
        quiescent points (no command in progress)."""
        srv = self.server
        self.server = None
        if srv is None:
            return
        tasks = []
        if getattr(srv, "management_task", None) and not srv.management_task.done():
            tasks.append(srv.management_task)
        for mb in list(srv.active_mailboxes.values()):
            mt = getattr(mb, "mgmt_task", None)
            if mt is not None and not mt.done():
                tasks.append(mt)
        for c in list(srv.clients.values()):
            try:
                w_ = getattr(c, "writer", None)
                if w_ is not None:
                    w_.close()
            except Exception:
                pass
        tasks += [t_ for t_ in srv.clients.keys() if hasattr(t_, "cancel") and not t_.done()]
        for t_ in tasks:
            t_.cancel()
        for t_ in tasks:
            try:
                await t_
            except BaseException:
                pass
        try:
            await srv.db.conn.rollback()
        except Exception:
            pass
        await srv.db.close()
        try:
            srv.mailbox.close()
        except Exception:
            pass
        logging.getLogger("asimap").removeHandler(self._logh)

    async def kill_restart(self):
        for s in self.sessions:
            s.pump()
        await self.kill()
        self.sessions = []
        self.pop3_sessions = []
        self.restarts += 1
        self.counts["kill_restarts"] += 1
        await self.start()

    async def restart(self):
        """Orderly shutdown and start on the same directory."""
        for s in self.sessions:
            s.pump()
        await self.stop()
        self.sessions = []
        self.pop3_sessions = []
        self.restarts += 1
        await self.start()

    def session(self, name=None):
        self._nsess += 1
        return ImapSession(self, name or ("S%d" % self._nsess) + "r%d" % self.restarts + "t")

    def pop3(self, name=None):
        self._nsess += 1
        return Pop3Session(self, name or "P%d" % self._nsess)

    async def settle(self, rounds=4):
        """Run the loop until every task is blocked on a timer or external
        input.  Uses a zero-delay virtual timer repeatedly: the VLoop only
        advances time when nothing is runnable and no thread job is in
        flight, so a timer *at the current time* fires exactly then."""
        for _ in range(rounds):
            await asyncio.sleep(0)
            fut = self.loop.create_future()
            self.loop.call_later(0.000001, fut.set_result, None)
            await fut

    async def advance(self, seconds):
        await asyncio.sleep(seconds)
        await self.settle()

    # -- external MH agent (stdlib mailbox.MH, as `inc`/`rcvstore` would)
    def deliver(self, folder, msgs, unseen=True):
        """Add raw messages at the next free numbers; optionally list them in
        `unseen`; then advance the folder mtime."""
        path = self.maildir / folder
        mh = mailbox.MH(str(path), create=False)
        # like nmh's inc/rcvstore: the folder and its sequences are read first (entries for
        # messages that do not exist are dropped there), then the messages are added, then
        # the sequences are written back
        seqs0 = mh.get_sequences()
        keys = []
        for m in msgs:
            keys.append(int(mh.add(m)))
        if unseen:
            seqs = seqs0
            cur = set(seqs.get("unseen", []))
            flags = unseen if isinstance(unseen, (list, tuple)) else [True] * len(keys)
            for k, f in zip(keys, flags):
                if f:
                    cur.add(k)
            seqs["unseen"] = sorted(cur)
            mh.set_sequences(seqs)
        self.bump_mtime(folder)
        self.counts["deliveries"] += 1
        return keys

    def deliver_torn_begin(self, folder, msgs, unseen):
        """First half of a delivery by an agent that is caught in the middle of
        rewriting .mh_sequences: the message files are there, the sequences file
        is a prefix of what it is going to be, cut inside a range ("unseen: 1-3 4-").
        Returns what deliver_torn_end() needs."""
        path = self.maildir / folder
        mh = mailbox.MH(str(path), create=False)
        seqs = mh.get_sequences()
        keys = [int(mh.add(m)) for m in msgs]
        cur = set(seqs.get("unseen", []))
        for k, f in zip(keys, unseen):
            if f:
                cur.add(k)
        seqs["unseen"] = sorted(cur)
        seqf = path / ".mh_sequences"
        old = seqf.read_bytes() if seqf.exists() else b""
        mh.set_sequences(seqs)
        full = seqf.read_bytes()
        cut = full.rfind(b"-")
        torn = full[: cut + 1] if cut >= 0 else full.rstrip(b"\n") + b"-"
        seqf.write_bytes(torn)
        self.bump_mtime(folder)
        self.counts["torn_deliveries"] += 1
        return (folder, full)

    def deliver_torn_end(self, st):
        folder, full = st
        (self.maildir / folder / ".mh_sequences").write_bytes(full)
        self.bump_mtime(folder)
        self.counts["deliveries"] += 1

    def deliver_raw(self, folder, raw):
        """Write the octets verbatim as the next message file (no line-ending
        normalisation by the mailbox module)."""
        path = self.maildir / folder
        keys = [int(x) for x in os.listdir(path) if x.isdigit()]
        k = max(keys + [0]) + 1
        with open(path / str(k), "wb") as f:
            f.write(raw)
        self.bump_mtime(folder)
        self.counts["deliveries"] += 1
        return k

    def bump_mtime(self, folder):
        path = self.maildir / folder
        seq = path / ".mh_sequences"
        cur = [int(time.time()), self.fake_mtime, int(os.path.getmtime(path))]
        if seq.exists():
            cur.append(int(os.path.getmtime(seq)))
        t = max(cur) + 1
        self.fake_mtime = t
        os.utime(path, (t, t))

    def disk_sequences(self, folder):
        """Read .mh_sequences the way an MH tool would (stdlib parser)."""
        mh = mailbox.MH(str(self.maildir / folder), create=False)
        mh.get_sequences()  # must be parseable by the stdlib reader (FormatError otherwise)
        # ... but the stdlib reader silently drops numbers that are not files,
        # which an MH tool reading the file does not: parse the raw text too.
        seqs = {}
        p = self.maildir / folder / ".mh_sequences"
        if p.exists():
            for line in p.read_text(encoding="latin-1").splitlines():
                if not line.strip():
                    continue
                name, _, contents = line.partition(":")
                keys = set()
                for spec in contents.split():
                    if spec.isdigit():
                        keys.add(int(spec))
                    else:
                        a, _, b = spec.partition("-")
                        keys.update(range(int(a), int(b) + 1))
                seqs[name.strip()] = keys
        return seqs, sorted(int(k) for k in mh.keys())

    def mailbox_obj(self, name):
        return self.server.active_mailboxes.get(name)


def make_loop(seed=0, scheduled=False, wall_budget=120.0, strategy=None):
    random.seed(seed)
    MemWriter._seq = 0
    if scheduled:
        loop = SLoop(seed=seed, strategy=strategy, wall_budget=wall_budget)
    else:
        loop = VLoop(wall_budget=wall_budget)
    CountingQueue.loop = loop
    asyncio.set_event_loop(loop)
    return loop


def run_case(coro_fn, seed=0, scheduled=False, wall_budget=120.0, strategy=None):
    """Run coro_fn(loop) to completion on a fresh virtual loop."""
    loop = make_loop(seed, scheduled, wall_budget, strategy)
    try:
        return loop.run_until_complete(coro_fn(loop))
    finally:
        try:
            # cancel whatever is left so that close() does not complain
            pending = [t for t in asyncio.all_tasks(loop) if not t.done()]
            for t in pending:
                t.cancel()
            if pending:
                try:
                    loop.run_until_complete(asyncio.wait(pending, timeout=1))
                except Exception:
                    pass
        finally:
            CountingQueue.loop = None
            loop.close()


def set_command_timeout(v):
    _client.COMMAND_TIMEOUT = v
