"""Crash driver (C11): kill the per-user server process at every persistent
mutation of a history, restart it, and evaluate the recovery oracle over the
surviving client-side ledger.

  python -m asimap_verif.crash child  DIR HISTORY K LEDGER [POINTS_OUT]
  python -m asimap_verif.crash recover DIR LEDGER RESULT [deliver]
"""
import asyncio
import base64
import json
import logging
import os
import signal
import sys
import time

MUT_EVENTS = {"os.remove", "os.rename", "os.mkdir", "os.rmdir", "os.symlink", "os.utime", "os.chmod", "os.truncate", "os.link", "shutil.rmtree"}


class KillPoints:
    def __init__(self, root, kill_at, record):
        self.root = os.path.realpath(root)
        self.kill_at = kill_at
        self.n = 0
        self.points = [] if record else None
        self.armed = False
        self.current = ""  # label of the command in progress

    def point(self, kind, detail):
        if not self.armed:
            return
        self.n += 1
        if self.points is not None:
            self.points.append((self.n, kind, detail[:80], self.current))
        if self.kill_at and self.n == self.kill_at:
            os.kill(os.getpid(), signal.SIGKILL)

    def hook(self, ev, args):
        if not self.armed:
            return
        if ev == "open":
            p, mode, flags = args
            if isinstance(p, (str, bytes)) and isinstance(flags, int):
                ps = os.fsdecode(p)
                if ps.startswith(self.root) and (flags & (os.O_WRONLY | os.O_RDWR | os.O_CREAT | os.O_TRUNC | os.O_APPEND)) and not ps.endswith(("asimap.db-journal", "asimap.db-wal", "asimap.db")):
                    self.point("open-w", ps[len(self.root):])
        elif ev in MUT_EVENTS:
            ps = os.fsdecode(args[0]) if isinstance(args[0], (str, bytes, os.PathLike)) else str(args[0])
            if ps.startswith(self.root):
                self.point(ev, ps[len(self.root):] + ("" if len(args) < 2 or not isinstance(args[1], (str, bytes, os.PathLike)) else " -> " + os.fsdecode(args[1])[len(self.root):]))


class Ledger:
    """Client-side record that survives SIGKILL: os.write on a descriptor
    opened before the kill points are armed, outside the mail directory."""

    def __init__(self, path):
        self.fd = os.open(path, os.O_WRONLY | os.O_CREAT | os.O_APPEND, 0o600)

    def write(self, obj):
        # pwritev (appends: the descriptor is O_APPEND) so that the syscall-level
        # kill lanes of C11, which count write/pwrite64, never count the ledger
        os.pwritev(self.fd, [(json.dumps(obj, default=repr) + "\n").encode()], 0)

    def model(self, w, step):
        boxes = {}
        for n, b in w.boxes.items():
            boxes[n] = {"vv": b.vv, "noselect": b.noselect, "subscribed": b.subscribed, "uidnext": b.uidnext_told, "msgs": [[m.uid, m.cid, sorted(f for f in m.flags if f != "\\Recent")] for m in b.msgs]}
        self.write({"ev": "model", "step": step, "boxes": boxes, "revealed": [[k[0], k[1], k[2], v] for k, v in w.ledger.items()], "expunged": sorted(w.expunged_cids)})


# ------------------------------------------------------------ histories
def histories():
    """name -> async fn(w, L, rnd) where L.send(desc) marks a command."""

    async def h_messages(w, L, rnd):
        a = w.session()
        for i in range(4):
            await L.op({"kind": "append", "box": "INBOX"}, w.op_append(a, "INBOX", flags=[["\\Seen"], None, ["\\Flagged", "kw1"], ["\\Deleted"]][i], date=[None, "01-Jan-2020 10:00:00 +0000"][i % 2]))
        await L.op({"kind": "select", "box": "INBOX"}, w.op_select(a, "INBOX"))
        await L.op({"kind": "store", "box": "INBOX"}, w.op_store(a, [1, 3], "add", ["\\Answered"]))
        await L.op({"kind": "store", "box": "INBOX"}, w.op_store(a, [2], "add", ["\\Deleted"]))
        await L.op({"kind": "expunge", "box": "INBOX"}, w.op_expunge(a))
        await L.op({"kind": "append", "box": "INBOX"}, w.op_append(a, "INBOX"))
        await L.op({"kind": "store", "box": "INBOX"}, w.op_store(a, [a.nview()], "add", ["\\Deleted"]))
        await L.op({"kind": "expunge", "box": "INBOX"}, w.op_expunge(a))
        await L.op({"kind": "append", "box": "INBOX"}, w.op_append(a, "INBOX", flags=["\\Seen"]))
        await L.op({"kind": "fetch", "box": "INBOX"}, w.op_fetch(a, [1], "UID BODY[]", sets_seen=True))
        await L.op({"kind": "noop"}, w.op_noop(a))

    async def h_copy_move_namespace(w, L, rnd):
        a = w.session()
        await L.op({"kind": "create", "box": "proj/sub"}, w.op_create(a, "proj/sub"))
        for i in range(3):
            await L.op({"kind": "append", "box": "INBOX"}, w.op_append(a, "INBOX", flags=[None, ["\\Seen"], ["kw1"]][i]))
        await L.op({"kind": "select", "box": "INBOX"}, w.op_select(a, "INBOX"))
        await L.op({"kind": "copy", "box": "INBOX", "dst": "proj"}, w.op_copy(a, [1, 2], "proj"))
        await L.op({"kind": "move", "box": "INBOX", "dst": "proj/sub"}, w.op_copy(a, [3], "proj/sub", move=True))
        await L.op({"kind": "subscribe", "box": "proj"}, w.op_subscribe(a, "proj"))
        await L.op({"kind": "rename", "box": "proj", "dst": "work"}, w.op_rename(a, "proj", "work"))
        await L.op({"kind": "append", "box": "work/sub"}, w.op_append(a, "work/sub"))
        await L.op({"kind": "create", "box": "tmp"}, w.op_create(a, "tmp"))
        await L.op({"kind": "append", "box": "tmp"}, w.op_append(a, "tmp"))
        await L.op({"kind": "delete", "box": "tmp"}, w.op_delete(a, "tmp"))
        await L.op({"kind": "delete", "box": "work"}, w.op_delete(a, "work"))
        await L.op({"kind": "create", "box": "work"}, w.op_create(a, "work"))
        await L.op({"kind": "append", "box": "work"}, w.op_append(a, "work"))

    async def h_rename_inbox_pack_delivery(w, L, rnd):
        from asimap.mbox import Mailbox

        Mailbox.FOLDER_SIZE_PACK_LIMIT = 4
        a = w.session()
        for i in range(6):
            await L.op({"kind": "append", "box": "INBOX"}, w.op_append(a, "INBOX", flags=[None, ["\\Deleted"]][i % 2]))
        await L.op({"kind": "select", "box": "INBOX"}, w.op_select(a, "INBOX"))
        await L.op({"kind": "expunge", "box": "INBOX"}, w.op_expunge(a))
        L.send({"kind": "deliver", "box": "INBOX"})
        w.deliver("INBOX", 2, unseen=[True, False])
        L.done(w)
        L.send({"kind": "advance", "box": "INBOX"})
        await w.rig.advance(30)  # poll: announces the delivery, may pack
        L.done(w)
        await L.op({"kind": "noop", "box": "INBOX"}, w.op_noop(a))
        await L.op({"kind": "rename_inbox", "box": "INBOX", "dst": "saved"}, w.op_rename(a, "INBOX", "saved"))
        await L.op({"kind": "append", "box": "INBOX"}, w.op_append(a, "INBOX"))
        await L.op({"kind": "noop", "box": "INBOX"}, w.op_noop(a))

    async def h_expunge_small(w, L, rnd):
        """Short history around one EXPUNGE of non-adjacent messages: every kill
        point is explored, and mail is always delivered while the server is down
        (so that the folder does not look smaller than recorded)."""
        a = w.session()
        for i in range(5):
            await L.op({"kind": "append", "box": "INBOX"}, w.op_append(a, "INBOX", flags=[None, ["\\Seen"], ["\\Flagged"], None, ["kw1"]][i]))
        await L.op({"kind": "select", "box": "INBOX"}, w.op_select(a, "INBOX"))
        await L.op({"kind": "store", "box": "INBOX"}, w.op_store(a, [1, 3], "add", ["\\Deleted"]))
        await L.op({"kind": "expunge", "box": "INBOX"}, w.op_expunge(a))
        await L.op({"kind": "noop", "box": "INBOX"}, w.op_noop(a))
        # an implicit flag change (\\Seen by a non-peek body fetch) is acknowledged like any other
        await L.op({"kind": "fetch", "box": "INBOX"}, w.op_fetch(a, [2], "UID BODY[]", sets_seen=True))
        await L.op({"kind": "noop", "box": "INBOX"}, w.op_noop(a))
        await L.op({"kind": "fetch", "box": "INBOX"}, w.op_fetch(a, [3], "FLAGS"))
        await L.op({"kind": "noop", "box": "INBOX"}, w.op_noop(a))

    async def h_delete_small(w, L, rnd):
        """Short history around one DELETE of the most recently created mailbox
        (it holds messages and flags): every kill point is explored."""
        a = w.session()
        await L.op({"kind": "append", "box": "INBOX"}, w.op_append(a, "INBOX"))
        await L.op({"kind": "create", "box": "tmp"}, w.op_create(a, "tmp"))
        for i in range(3):
            await L.op({"kind": "append", "box": "tmp"}, w.op_append(a, "tmp", flags=[["\\Deleted"], ["\\Flagged", "kw1"], None][i]))
        await L.op({"kind": "select", "box": "tmp"}, w.op_select(a, "tmp"))
        await L.op({"kind": "unselect", "box": "tmp"}, w.op_unselect(a))
        await L.op({"kind": "delete", "box": "tmp"}, w.op_delete(a, "tmp"))
        await L.op({"kind": "noop"}, w.op_select(a, "INBOX"))

    async def h_rename_inbox_small(w, L, rnd):
        """Short history around one RENAME INBOX of a quiet INBOX (every message
        seen and looked at: nothing marks the folder as having news), followed by
        polls of the emptied INBOX and work in the new mailbox: every kill point is
        explored.  What was acknowledged -- INBOX empty, the messages in the new
        mailbox -- is what a restart must show."""
        a = w.session()
        for i in range(3):
            await L.op({"kind": "append", "box": "INBOX"}, w.op_append(a, "INBOX", flags=[["\\Seen"], ["\\Seen", "kw1"], ["\\Seen", "\\Flagged"]][i]))
        await L.op({"kind": "select", "box": "INBOX"}, w.op_select(a, "INBOX"))
        await L.op({"kind": "fetch", "box": "INBOX"}, w.op_fetch(a, [1, 2, 3], "FLAGS"))
        await L.op({"kind": "noop", "box": "INBOX"}, w.op_noop(a))
        await L.op({"kind": "unselect", "box": "INBOX"}, w.op_unselect(a))
        await L.op({"kind": "select", "box": "INBOX"}, w.op_select(a, "INBOX"))
        await L.op({"kind": "rename_inbox", "box": "INBOX", "dst": "saved"}, w.op_rename(a, "INBOX", "saved"))
        await L.op({"kind": "noop", "box": "INBOX"}, w.op_noop(a))
        L.send({"kind": "advance", "box": "INBOX"})
        await w.rig.advance(30)
        L.done(w)
        await L.op({"kind": "noop", "box": "INBOX"}, w.op_noop(a))
        await L.op({"kind": "select", "box": "saved"}, w.op_select(a, "saved"))
        await L.op({"kind": "store", "box": "saved"}, w.op_store(a, [2], "add", ["\\Answered"]))
        await L.op({"kind": "noop", "box": "saved"}, w.op_noop(a))

    async def h_expunge_quiet(w, L, rnd):
        """Like the short EXPUNGE history, in a mailbox where nothing announces news: every message seen and looked
        at before (no unseen, no \\Recent), the highest one among the removed.  Every kill point is explored."""
        a = w.session()
        for i in range(5):
            await L.op({"kind": "append", "box": "INBOX"}, w.op_append(a, "INBOX", flags=[["\\Seen"], ["\\Seen", "kw1"], ["\\Seen"], ["\\Seen", "\\Flagged"], ["\\Seen"]][i]))
        await L.op({"kind": "select", "box": "INBOX"}, w.op_select(a, "INBOX"))
        # real time passes between the steps (file modification times have a granularity of one second and are not
        # virtual): the FETCH's rewrite of .mh_sequences lands in a later second than what the server recorded, so the
        # next poll looks, finds nothing new and records the mailbox as \\Unmarked
        time.sleep(1.15)
        await L.op({"kind": "fetch", "box": "INBOX"}, w.op_fetch(a, [1, 2, 3, 4, 5], "FLAGS"))
        await L.op({"kind": "noop", "box": "INBOX"}, w.op_noop(a))
        L.send({"kind": "advance", "box": "INBOX"})
        await w.rig.advance(12)
        L.done(w)
        await L.op({"kind": "noop", "box": "INBOX"}, w.op_noop(a))
        await L.op({"kind": "unselect", "box": "INBOX"}, w.op_unselect(a))
        await L.op({"kind": "select", "box": "INBOX"}, w.op_select(a, "INBOX"))
        time.sleep(1.15)
        await L.op({"kind": "store", "box": "INBOX"}, w.op_store(a, [2, 5], "add", ["\\Deleted"]))
        await L.op({"kind": "expunge", "box": "INBOX"}, w.op_expunge(a))
        await L.op({"kind": "noop", "box": "INBOX"}, w.op_noop(a))
        await L.op({"kind": "fetch", "box": "INBOX"}, w.op_fetch(a, [1, 2, 3], "FLAGS"))

    async def h_startup_only(w, L, rnd):
        L.send({"kind": "noop"})
        L.done(w)

    return {"messages": h_messages, "namespace": h_copy_move_namespace, "inboxpack": h_rename_inbox_pack_delivery, "startup": h_startup_only, "expunge": h_expunge_small, "deletebox": h_delete_small, "renameinbox": h_rename_inbox_small, "quietexpunge": h_expunge_quiet}


class OpLog:
    def __init__(self, ledger, kp):
        self.ledger = ledger
        self.kp = kp
        self.step = 0

    def send(self, desc):
        self.step += 1
        self.kp.current = f"{self.step}:{desc.get('kind')}"
        self.ledger.write({"ev": "send", "step": self.step, "op": desc, "mut": self.kp.n})

    def done(self, w):
        self.ledger.model(w, self.step)
        self.kp.current = ""

    async def op(self, desc, coro):
        self.send(desc)
        r = await coro
        self.done(self.w)
        return r


def prepare_dir(d, variant):
    """Initial directory state before the (first) start."""
    import mailbox

    os.makedirs(d, exist_ok=True)
    if variant == "preexisting":
        mh = mailbox.MH(os.path.join(d, "inbox"))
        for i in range(3):
            mh.add(f"From: x@y\nX-CID: pre{i}\n\npre-existing {i}\n".encode())
        mh2 = mailbox.MH(os.path.join(d, "old"))
        mh2.add(b"From: x@y\nX-CID: preold\n\nold\n")
        mh.set_sequences({"unseen": [2]})
    elif variant and variant.startswith("schema"):
        # a database left at an earlier schema version
        import sqlite3

        os.makedirs(os.path.join(d, "inbox"), exist_ok=True)
        ver = int(variant[6:])
        conn = sqlite3.connect(os.path.join(d, "asimap.db"))

        class C:
            async def execute(self, sql, *a):
                conn.execute(sql, *a)

        from asimap.db import MIGRATIONS

        loop = asyncio.new_event_loop()
        for idx, mig in enumerate(MIGRATIONS[: ver + 1]):
            loop.run_until_complete(mig(C()))
            conn.execute("insert into versions (version) values (?)", (idx,))
            conn.commit()
        loop.close()
        conn.execute("insert into user_server (uid_vv) values (3)")
        conn.execute("insert into mailboxes (name, uid_vv, attributes, mtime, next_uid, num_msgs, num_recent) values ('inbox', 2, '\\Unmarked', 0, 1, 0, 0)")
        conn.commit()
        conn.close()


def child(d, hist, kill_at, ledger_path, points_out, variant):
    logging.basicConfig(level=logging.CRITICAL)
    from . import rig as R
    from .history import Stop, World
    from .gen import rng
    import aiosqlite.core as aqc

    R.install_guard([os.path.dirname(os.path.realpath(d))])
    if not os.path.exists(os.path.join(d, ".prepared")):
        prepare_dir(d, variant)
        open(os.path.join(d, ".prepared"), "w").close()
    ledger = Ledger(ledger_path)
    kp = KillPoints(d, kill_at, record=bool(points_out))
    sys.addaudithook(kp.hook)
    orig_connect = aqc.Connection._connect

    async def _connect(self):
        r = await orig_connect(self)

        def tr(s):
            st = s.lstrip().split(None, 1)[0].upper() if s.strip() else ""
            if st not in ("SELECT", "PRAGMA", ""):
                kp.point("sql", s.strip()[:70])

        await self._execute(self._conn.set_trace_callback, tr)
        return r

    aqc.Connection._connect = _connect
    fn = histories()[hist]

    async def main(loop):
        kp.armed = True
        kp.current = "0:startup"
        rig = await R.Rig(d, loop).start()
        w = World(rig, rng(0, "crash", hist), {"cid_prefix": f"k{hist[:2]}-"})
        w.expunged_cids = set()
        orig_remove = w._remove

        def _remove(b, msgs, actor=None):
            for m in msgs:
                w.expunged_cids.add(f"{b.name}|{m.cid}")
            return orig_remove(b, msgs, actor)

        w._remove = _remove
        L = OpLog(ledger, kp)
        L.w = w
        try:
            await w.init()
            ledger.model(w, 0)
            await fn(w, L, None)
        except Stop:
            ledger.write({"ev": "stop", "violations": w.violations[-2:]})
        kp.current = "end:shutdown"
        await rig.stop()
        ledger.write({"ev": "finished", "points": kp.n})

    try:
        R.run_case(main, seed=1, wall_budget=120)
    finally:
        if points_out:
            with open(points_out, "w") as f:
                json.dump({"n": kp.n, "points": kp.points}, f)
        sys.stdout.flush()
        os._exit(0)


# -------------------------------------------------------------- recovery
def recover(d, ledger_path, result_path, deliver, dry_ledger=None, kill_again_first=False):
    logging.basicConfig(level=logging.CRITICAL)
    from . import rig as R
    from .history import canon_flag, canon_name, wire_name
    from .gen import cid_of_fetch

    R.install_guard([os.path.dirname(os.path.realpath(d))])
    events = []
    with open(ledger_path) as f:
        for line in f:
            try:
                events.append(json.loads(line))
            except Exception:
                pass
    model = None
    inflight = None
    for e in events:
        if e["ev"] == "model":
            model = e
            inflight = None
        elif e["ev"] == "send":
            inflight = e["op"]
    res = {"ok": True, "problems": [], "inflight": inflight, "model_step": model["step"] if model else None, "delivered": None}
    # the complete (unkilled) run of the same deterministic history tells what
    # the in-flight command would have acknowledged: flags of a message touched
    # by an in-flight STORE/FETCH may be the old or the new ones, nothing else
    after = None
    if dry_ledger and model is not None and inflight is not None:
        try:
            with open(dry_ledger) as f:
                for line in f:
                    e = json.loads(line)
                    if e.get("ev") == "model" and e["step"] == model["step"] + 1:
                        after = e
                        break
        except Exception:
            after = None
    res["after_model"] = after is not None
    if deliver:
        import mailbox

        try:
            mh = mailbox.MH(os.path.join(d, "inbox"), create=False)
            key = mh.add(b"From: late@example.com\nX-CID: lateDelivery\n\ndelivered while the server was down\n")
            t = int(time.time()) + 5
            os.utime(os.path.join(d, "inbox"), (t, t))
            res["delivered"] = int(key)
        except Exception as e:
            res["delivered"] = "failed: %r" % e

    # mailboxes whose folder mtime (one-second granularity) is not newer than the one stored with their last commit:
    # the restart will take their record for current without looking at the folder (known-finding classification)
    res["mtime_not_newer"] = []
    try:
        import sqlite3

        con = sqlite3.connect(os.path.join(d, "asimap.db"))
        for nm, mt in con.execute("SELECT name, mtime FROM mailboxes"):
            fp = os.path.join(d, nm)
            try:
                act = int(os.path.getmtime(fp))
                sp = os.path.join(fp, ".mh_sequences")
                if os.path.exists(sp):
                    act = max(act, int(os.path.getmtime(sp)))
                if act <= int(mt):
                    res["mtime_not_newer"].append("INBOX" if nm == "inbox" else nm)
            except OSError:
                pass
        con.close()
    except Exception as e:  # noqa: BLE001
        res["mtime_not_newer_error"] = repr(e)

    def bad(kind, detail):
        res["ok"] = False
        res["problems"].append([kind, str(detail)[:500]])

    async def main(loop):
        try:
            rig = await R.Rig(d, loop).start()
            rig.server.initial_folder_scan = True
            await rig.server.check_all_folders()
            rig.server.initial_folder_scan = False
        except BaseException as e:  # noqa: B036
            import traceback

            bad("restart-failed", f"{type(e).__name__}: {e}; {traceback.format_exc()[-400:]}")
            return
        if kill_again_first:
            # variant: the restarted server is killed before any client has talked to it (what it repaired
            # when it started must not live in memory only); the server after that one is the one judged
            try:
                await rig.settle()
                await rig.kill()
                rig = await R.Rig(d, loop).start()
                rig.server.initial_folder_scan = True
                await rig.server.check_all_folders()
                rig.server.initial_folder_scan = False
                res["killed_again_before_any_command"] = True
            except BaseException as e:  # noqa: B036
                import traceback

                bad("second-restart-failed", f"{type(e).__name__}: {e}; {traceback.format_exc()[-400:]}")
                return
        state = await inspect(rig, "R")
        if state is None:
            return
        res["recovered"] = {k: (v if v is None else {"vv": v["vv"], "uidnext": v["uidnext"], "n": len(v["rows"])}) for k, v in state.items()}
        if model is not None:
            judge(model, inflight, state, bad, res, after)
        # what the restart repaired has to be durable as well: the recovered server is killed in its turn (it has
        # only been looked at) and a third one must show the same -- the acknowledged state judged exactly as before
        if res["ok"] and model is not None:
            try:
                await rig.kill()
                rig = await R.Rig(d, loop).start()
                rig.server.initial_folder_scan = True
                await rig.server.check_all_folders()
                rig.server.initial_folder_scan = False
            except BaseException as e:  # noqa: B036
                import traceback

                bad("second-restart-failed", f"{type(e).__name__}: {e}; {traceback.format_exc()[-400:]}")
                return
            state2 = await inspect(rig, "Q")
            if state2 is None:
                return
            res["second_recovery"] = True
            n0 = len(res["problems"])
            judge(model, inflight, state2, bad, res, after)
            for p_ in res["problems"][n0:]:
                p_[1] = "(after the recovered server was killed in its turn) " + p_[1]
            state = state2
        s = rig.session("R3")
        await usability(rig, s, state)

    async def inspect(rig, sname):
        s = rig.session(sname)
        r = await s.cmd('LIST "" *')
        if not r.ok:
            bad("list-failed", r.brief())
            return None
        state = {}
        for x in r.untagged("LIST"):
            nm = x.data["name"]
            nm = canon_name(bytes(nm).decode("latin-1") if not isinstance(nm, str) else str(nm))
            if "\\Noselect" in x.data["attrs"]:
                state[nm] = None
                continue
            rs = await s.cmd("SELECT " + wire_name(nm))
            if not rs.ok or (rs.latency or 0) >= 60:
                bad("mailbox-not-selectable", f"{nm}: {rs.brief()} latency={rs.latency}")
                if s.writer.closed or s.wire_error:
                    s = rig.session("R")
                continue
            vv = nxt = None
            ex = 0
            for y in rs.responses:
                if y.kind == "status" and y.code:
                    if y.code.startswith("UIDVALIDITY"):
                        vv = int(y.code.split()[1])
                    if y.code.startswith("UIDNEXT"):
                        nxt = int(y.code.split()[1])
                if y.kind == "num" and y.name == "EXISTS":
                    ex = y.num
            rows = []
            if ex:
                rf = await s.cmd("UID FETCH 1:* (UID FLAGS BODY.PEEK[HEADER.FIELDS (X-CID)])")
                if not rf.ok:
                    bad("fetch-failed-after-restart", f"{nm}: {rf.brief()}")
                for n, dd in sorted(rf.fetches(), key=lambda t: t[0]):
                    if "UID" in dd:
                        fl = sorted(f for f in (canon_flag(x) for x in dd.get("FLAGS", [])) if f not in ("\\Recent", "unseen"))
                        rows.append([dd["UID"], cid_of_fetch(dd), fl])
            state[nm] = {"vv": vv, "uidnext": nxt, "rows": rows}
        try:
            await s.cmd("LOGOUT")
        except Exception:
            pass
        return state

    async def usability(rig, s, state):
        # the recovered server must also be usable: a mailbox created now is new
        # (nothing of a mailbox that was being removed when the process died may
        # stick to it) and INBOX accepts mail
        try:
            if s.writer.closed or s.wire_error:
                s = rig.session("R2")
            pname = "zzrecovered"
            rc = await s.cmd("CREATE " + pname)
            if not rc.ok:
                bad("create-after-recovery-failed", rc.brief())
            else:
                ra = await s.cmd(b"APPEND " + pname.encode() + b" {42+}\r\nFrom: p@q\r\nX-CID: recprobe\r\n\r\nprobe body\r\n")
                rs = await s.cmd("SELECT " + pname)
                rf2 = await s.cmd("UID FETCH 1:* (UID FLAGS BODY.PEEK[HEADER.FIELDS (X-CID)])") if rs.ok else None
                rows2 = []
                if rf2 is not None and rf2.ok:
                    rows2 = [(dd.get("UID"), cid_of_fetch(dd), sorted(f for f in (canon_flag(x) for x in dd.get("FLAGS", [])) if f not in ("\\Recent", "unseen"))) for n, dd in rf2.fetches() if "UID" in dd]
                if not ra.ok or not rs.ok or rf2 is None or not rf2.ok:
                    bad("new-mailbox-after-recovery-unusable", f"APPEND {ra.status} SELECT {rs.status} FETCH {rf2.status if rf2 is not None else None}: {(ra if not ra.ok else rs).brief()}")
                elif [(c, f) for _, c, f in rows2] != [("recprobe", [])]:
                    bad("new-mailbox-after-recovery-not-empty-or-flagged", f"{rows2}")
                res["checks"] = (res.get("checks") or 0) + 1
            ri = await s.cmd(b"APPEND inbox {43+}\r\nFrom: p@q\r\nX-CID: recprobe2\r\n\r\nprobe body\r\n")
            if not ri.ok and "inbox" in [k.lower() for k, v in state.items() if v is not None]:
                bad("append-to-inbox-after-recovery-failed", ri.brief())
            elif ri.ok:
                # what is appended now is a new message with the flags it was given (none): it inherits nothing from a
                # message whose number it may have taken over
                rs2 = await s.cmd("EXAMINE inbox")
                rf3 = await s.cmd("UID FETCH 1:* (UID FLAGS BODY.PEEK[HEADER.FIELDS (X-CID)])") if rs2.ok else None
                if rf3 is not None and rf3.ok:
                    for n, dd in rf3.fetches():
                        if cid_of_fetch(dd) == "recprobe2":
                            fl = sorted(f for f in (canon_flag(x) for x in dd.get("FLAGS", [])) if f not in ("\\Recent", "unseen"))
                            res["checks"] = (res.get("checks") or 0) + 1
                            if fl:
                                bad("append-after-recovery-inherits-flags", f"INBOX: a message appended without flags after the restart has {fl}")
        except Exception as e:  # noqa: BLE001
            bad("post-recovery-probe-raised", repr(e))
        try:
            await rig.stop()
        except Exception as e:
            bad("shutdown-after-recovery-failed", repr(e))

    def judge(model, inflight, state, bad, res, after=None):
        after_flags = {}
        if after is not None:
            for nm, b in after["boxes"].items():
                for uid, cid, flags in b["msgs"]:
                    after_flags[(nm, cid)] = sorted(f for f in flags if f != "unseen")
        kind = (inflight or {}).get("kind")
        ibox = (inflight or {}).get("box")
        idst = (inflight or {}).get("dst")
        removers = {"expunge", "move", "delete", "rename", "rename_inbox", "advance"}
        checks = 0
        for name, b in model["boxes"].items():
            if b["noselect"]:
                continue
            names = [name]
            if kind in ("rename", "rename_inbox") and ibox == name and idst:
                names.append(idst)
            found = [state.get(n) for n in names if state.get(n) is not None]
            if not found:
                if kind in ("delete", "rename", "rename_inbox") and ibox == name:
                    continue
                if kind == "rename" and ibox and name.startswith(ibox + "/"):
                    alt = idst + name[len(ibox):]
                    if state.get(alt) is not None:
                        found = [state[alt]]
                if not found:
                    bad("acknowledged-mailbox-missing", f"{name}: model has {len(b['msgs'])} messages; recovered {sorted(k for k in state)}")
                    continue
            rows = [r for f in found for r in f["rows"]]
            rc = {r[1]: r for r in rows}
            for uid, cid, flags in b["msgs"]:
                checks += 1
                if cid not in rc:
                    may = kind in removers and (ibox == name)
                    if not may:
                        bad("acknowledged-message-lost", f"{name}: {cid} (uid {uid}) acknowledged but absent after restart; in flight: {inflight}; recovered {[(r[0], r[1]) for r in rows]}")
                    continue
                r = rc[cid]
                if uid is not None and r[0] != uid and not (kind in ("rename_inbox",) and ibox == name):
                    same_vv = any(f["vv"] == b["vv"] for f in found)
                    if same_vv:
                        bad("uid-rebound", f"{name}: {cid} had UID {uid}, now {r[0]} under the same UIDVALIDITY {b['vv']}")
                want = sorted(f for f in flags if f != "unseen")
                if r[2] != want:
                    if kind in ("store", "fetch") and ibox == name and (after is None or r[2] == after_flags.get((name, cid))):
                        pass  # the in-flight command's own effect (or no complete run to compare with)
                    else:
                        bad("acknowledged-flags-lost", f"{name} {cid}: acknowledged {want}, now {r[2]}" + (f" (in flight: {kind}, which would have given {after_flags.get((name, cid))})" if kind in ("store", "fetch") and ibox == name else ""))
        # acknowledged expunges stay expunged
        for item in model.get("expunged", []):
            nm, cid = item.split("|", 1)
            st = state.get(nm)
            if st and any(r[1] == cid for r in st["rows"]):
                # the same content id may legitimately live there again (copied back)
                mb = model["boxes"].get(nm)
                if mb is None or not any(m[1] == cid for m in mb["msgs"]):
                    if not (kind in ("copy", "move") and idst == nm):
                        bad("expunged-message-resurrected", f"{nm}: {cid}")
        # revealed (name, uidvalidity, uid) -> cid never denotes another message
        for nm, vv, uid, cid in model.get("revealed", []):
            st = state.get(nm)
            if not st or st["vv"] != vv:
                continue
            checks += 1
            for r in st["rows"]:
                if r[0] == uid and r[1] != cid:
                    bad("revealed-uid-denotes-other-message", f"{nm} uidvalidity {vv} uid {uid}: was {cid}, now {r[1]}")
            if st["uidnext"] is not None and st["uidnext"] <= uid:
                bad("uidnext-not-above-revealed-uid", f"{nm}: UIDNEXT {st['uidnext']} but UID {uid} was revealed under UIDVALIDITY {vv}")
        res["checks"] = checks

    try:
        R.run_case(main, seed=2, wall_budget=90)
    except BaseException as e:  # noqa: B036
        import traceback

        res["harness_error"] = repr(e) + traceback.format_exc()[-500:]
    with open(result_path, "w") as f:
        json.dump(res, f, default=repr)
        f.flush()
        os.fsync(f.fileno())
    sys.stdout.flush()
    os._exit(0)


if __name__ == "__main__":
    mode = sys.argv[1]
    if mode == "child":
        d, hist, k, ledger = sys.argv[2:6]
        pts = sys.argv[6] if len(sys.argv) > 6 and sys.argv[6] != "-" else None
        variant = sys.argv[7] if len(sys.argv) > 7 else ""
        child(d, hist, int(k), ledger, pts, variant)
    elif mode == "prepare":
        from . import rig as R

        d, variant = sys.argv[2], (sys.argv[3] if len(sys.argv) > 3 else "")
        R.install_guard([os.path.dirname(os.path.realpath(d))])
        prepare_dir(d, variant)
        open(os.path.join(d, ".prepared"), "w").close()
        os._exit(0)
    else:
        d, ledger, result = sys.argv[2:5]
        recover(d, ledger, result, len(sys.argv) > 5 and sys.argv[5] == "deliver", sys.argv[6] if len(sys.argv) > 6 and sys.argv[6] != "-" else None,
                kill_again_first=len(sys.argv) > 7 and sys.argv[7] == "again")
