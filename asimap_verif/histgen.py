"""Random multi-session histories over the World (history.py)."""
from .history import Stop, World

FLAG_POOL = ["\\Seen", "\\Flagged", "\\Answered", "\\Draft", "\\Deleted", "$Forwarded", "NonJunk", "kw1"]

DEFAULT_WEIGHTS = {
    "append": 10, "store_del": 8, "store": 6, "uid_store": 4, "expunge": 6, "uid_expunge": 3, "copy": 5, "uid_copy": 3, "move": 4, "uid_move": 2,
    "noop": 8, "check": 3, "select": 4, "examine": 2, "close": 2, "unselect": 2, "idle": 3, "deliver": 5, "fetch": 4, "fetch_body": 3, "uid_fetch": 3,
    "advance": 3, "observe": 0, "restart": 0, "create": 0, "delete": 0, "rename": 0, "rename_inbox": 0, "probe_pairs": 0, "search_flag": 0, "subscribe": 0, "deliver_stalled": 0, "leave": 2, "drop_midcmd": 1, "deliver_torn": 1, "deliver_fault": 1,
}


def dead_uids(rnd, us, p=0.3):
    """UIDs above every live one (expunged long ago, or never assigned): a single one, or a whole range of them."""
    if rnd.random() >= p:
        return []
    m = max(us)
    return rnd.choice([[m + 7], [m + 1, m + 2, m + 3], [m + 2, m + 3, m + 4, m + 5]])


def pick(rnd, weights):
    items = [(k, w) for k, w in weights.items() if w > 0]
    tot = sum(w for _, w in items)
    x = rnd.uniform(0, tot)
    for k, w in items:
        x -= w
        if x <= 0:
            return k
    return items[-1][0]


def rand_positions(rnd, n, allow_all=True):
    if n <= 0:
        return []
    mode = rnd.choice(["one", "one", "some", "first", "last", "all"] if allow_all else ["one", "some", "first", "last"])
    if mode == "one":
        return [rnd.randint(1, n)]
    if mode == "first":
        return [1]
    if mode == "last":
        return [n]
    if mode == "all":
        return list(range(1, n + 1))
    k = rnd.randint(1, n)
    return sorted(rnd.sample(range(1, n + 1), k))


async def deliver_while_executing(w: World, rnd, ss):
    """An extra client (not part of the model) starts a command on the
    mailbox `ss` has selected and then reads slowly, which keeps that command
    executing -- so the management task does not resync; meanwhile the MH agent
    delivers, and `ss` runs a flag-changing command that rewrites
    .mh_sequences.  The delivery must later be announced with exactly the
    agent's flags."""
    import asyncio

    name = ss.selected
    b = w.boxes[name]
    await w.learn_uids(b)
    known = [m.uid for m in b.msgs if m.uid is not None]
    x = w.rig.session("X")
    r = await x.cmd("EXAMINE " + ("inbox" if name == "INBOX" else __import__("asimap_verif.history", fromlist=["wire_name"]).wire_name(name)))
    if not r.ok:
        return
    ev = asyncio.Event()
    x.writer.stall_ev = ev
    await x.cmd(rnd.choice(["FETCH 1 BODY.PEEK[]", "FETCH 1:* (FLAGS BODY.PEEK[HEADER])", "UID SEARCH ALL", "FETCH 1:* (UID INTERNALDATE)"]), wait=False)
    await w.rig.settle()
    w.no_probe = True
    try:
        unseen = [rnd.random() < 0.6 for _ in range(rnd.randint(1, 2))]
        w.deliver(name, len(unseen), unseen=unseen)
        w.stats["deliveries_during_executing_command"] += 1
        # address a message the model already knows by UID (inside the window
        # nothing may be probed, and the view can grow under our feet)
        kind = rnd.choice(["store", "store", "store_del", "fetch_seen"])
        if known:
            target = [rnd.choice(known)]
            if kind == "store":
                await w.op_store(ss, target, rnd.choice(["add", "remove", "replace"]), [rnd.choice(["\\Flagged", "\\Answered", "kw1", "\\Seen"])], silent=rnd.random() < 0.3, uid_mode=True)
            elif kind == "store_del":
                await w.op_store(ss, target, "add", ["\\Deleted"], uid_mode=True)
            else:
                await w.op_fetch(ss, target, "UID BODY[]", sets_seen=True, uid_mode=True)
    finally:
        w.no_probe = False
        ev.set()
        x.writer.stall_ev = None
    await w.rig.settle()
    x.pump()
    if x.writer.closed:
        w.stats["stalled_client_dropped"] += 1
    else:
        await x.cmd("LOGOUT")
    await w.rig.advance(6)


async def step(w: World, rnd, weights, names, opts):
    """Perform one random operation.  Returns the op name."""
    live = [s for s in w.sessions if not s.dead and not s.s.writer.closed]
    if not live:
        return "none"
    ss = rnd.choice(live)
    op = pick(rnd, weights)
    sel = ss.view is not None and ss.selected in w.boxes
    n = ss.nview()
    sel_names = [x for x in names if x in w.boxes and not w.boxes[x].noselect]
    def dest():
        # mostly a selectable mailbox; sometimes a \\Noselect placeholder or a
        # name that does not exist (must be refused without effect)
        if rnd.random() < 0.1:
            ph = [x for x in w.boxes if w.boxes[x].noselect]
            return rnd.choice(ph) if ph and rnd.random() < 0.7 else "nosuch-box"
        return rnd.choice(sel_names)

    if ss.idling and op not in ("deliver", "advance", "observe", "leave", "deliver_torn", "deliver_fault"):
        await w.op_done(ss)
        return "done"
    if op == "append":
        nm = dest()
        fl = rnd.choice([None, [], ["\\Seen"], ["\\Deleted"], ["\\Seen", "\\Flagged"], ["\\Answered", "kw1"]]) if opts.get("append_flags", True) else None
        dt = rnd.choice([None, None, "01-Jan-2020 10:00:00 +0000", "15-Mar-2021 23:59:59 -0500"])
        await w.op_append(ss, nm, flags=fl, date=dt)
    elif op == "store_del" and sel and n and not ss.readonly:
        await w.op_store(ss, rand_positions(rnd, n, allow_all=False), rnd.choice(["add", "add", "add", "remove"]), ["\\Deleted"], silent=rnd.random() < 0.3)
    elif op == "store" and sel and n:
        fl = rnd.sample(opts.get("flag_pool", FLAG_POOL), rnd.randint(1, 2))
        await w.op_store(ss, rand_positions(rnd, n), rnd.choice(["add", "remove", "replace"]), fl, silent=rnd.random() < 0.3)
    elif op == "uid_store" and sel and n:
        b = w.boxes[ss.selected]
        us = [m.uid for m in b.msgs if m.uid is not None]
        if us:
            pick_u = sorted(rnd.sample(us, rnd.randint(1, min(3, len(us))))) + dead_uids(rnd, us)
            fl = rnd.sample(opts.get("flag_pool", FLAG_POOL), rnd.randint(1, 2))
            await w.op_store(ss, pick_u, rnd.choice(["add", "remove", "replace"]), fl, silent=rnd.random() < 0.3, uid_mode=True)
    elif op == "expunge" and sel:
        await w.op_expunge(ss)
    elif op == "uid_expunge" and sel:
        b = w.boxes[ss.selected]
        us = [m.uid for m in b.msgs if m.uid is not None]
        if us:
            await w.op_expunge(ss, uids=sorted(rnd.sample(us, rnd.randint(1, len(us)))) + dead_uids(rnd, us, 0.2))
    elif op in ("copy", "move") and sel and n:
        if op == "move" and ss.readonly and rnd.random() < 0.7:
            return "skip"
        await w.op_copy(ss, rand_positions(rnd, n), dest(), move=(op == "move"))
    elif op in ("uid_copy", "uid_move") and sel and n:
        b = w.boxes[ss.selected]
        us = [m.uid for m in b.msgs if m.uid is not None]
        if us:
            pick_u = sorted(rnd.sample(us, rnd.randint(1, min(3, len(us))))) + dead_uids(rnd, us)
            star = None
            if rnd.random() < 0.3 and len(us) == len(b.msgs):
                # the set written with `*` (the highest UID of the mailbox, whatever the message count is)
                if rnd.random() < 0.3:
                    pick_u, star = [max(us)], "only"
                else:
                    lo = rnd.choice(sorted(us)[-3:])
                    pick_u, star = [u for u in sorted(us) if u >= lo], "tail"
            await w.op_copy(ss, pick_u, dest(), uid_mode=True, move=(op == "uid_move"), star=star)
    elif op == "noop":
        await w.op_noop(ss)
    elif op == "check" and sel:
        await w.op_noop(ss, check=True)
    elif op in ("select", "examine"):
        await w.op_select(ss, rnd.choice(sel_names), examine=(op == "examine"))
    elif op == "close" and sel:
        await w.op_unselect(ss, close=True)
        await w.op_select(ss, rnd.choice(sel_names))
    elif op == "unselect" and sel:
        await w.op_unselect(ss)
        await w.op_select(ss, rnd.choice(sel_names), examine=rnd.random() < 0.2)
    elif op == "idle" and sel:
        await w.op_idle(ss)
    elif op == "deliver":
        nm = rnd.choice([x for x in sel_names if x in opts.get("deliver_to", sel_names)] or sel_names)
        k = rnd.choice([1, 1, 2, 3])
        w.deliver(nm, k, unseen=[rnd.random() < 0.7 for _ in range(k)])
        await w.rig.advance(rnd.choice([6, 6, 21]))
        for s2 in w.sessions:
            s2.s.pump()
    elif op == "deliver_fault":
        nm = rnd.choice([x for x in sel_names if x in opts.get("deliver_to", sel_names)] or sel_names)
        await w.deliver_then_fault(nm, rnd.choice([1, 1, 2]))
    elif op == "deliver_torn":
        nm = rnd.choice([x for x in sel_names if x in opts.get("deliver_to", sel_names)] or sel_names)
        await w.deliver_torn(nm, rnd.choice([2, 2, 3]))
    elif op == "advance":
        await w.rig.advance(rnd.choice([1, 6, 25]))
        for s2 in w.sessions:
            s2.s.pump()
    elif op == "fetch" and sel and n:
        await w.op_fetch(ss, rand_positions(rnd, n), rnd.choice(["UID FLAGS", "UID", "UID BODY.PEEK[HEADER.FIELDS (X-CID)]", "FLAGS"]))
    elif op == "fetch_body" and sel and n:
        await w.op_fetch(ss, rand_positions(rnd, n), rnd.choice(["UID BODY[]", "UID BODY[TEXT]", "UID RFC822"]), sets_seen=True)
    elif op == "uid_fetch" and sel and n:
        b = w.boxes[ss.selected]
        us = [m.uid for m in b.msgs if m.uid is not None]
        if us:
            await w.op_fetch(ss, sorted(rnd.sample(us, rnd.randint(1, len(us)))) + dead_uids(rnd, us, 0.2), "FLAGS BODY.PEEK[HEADER.FIELDS (X-CID)]", uid_mode=True)
    elif op == "deliver_stalled" and sel and n and not ss.readonly:
        await deliver_while_executing(w, rnd, ss)
    elif op == "leave":
        # the session leaves (LOGOUT, or the connection just ends -- also while idling or with updates queued); a new one takes its place
        await w.op_leave(ss, rnd.choice(["logout", "drop", "drop"]))
        s2 = w.session()
        await w.op_select(s2, rnd.choice(sel_names), examine=rnd.random() < 0.15)
    elif op == "drop_midcmd" and sel and n:
        await w.op_drop_midcmd(ss, rnd)
    elif op == "observe":
        await w.observe(full=opts.get("observe_full", False))
    elif op == "restart":
        await w.restart()
        for _ in range(opts.get("nsessions", 2)):
            s2 = w.session()
            await w.op_select(s2, rnd.choice(sel_names))
    elif op == "create":
        cand = [x for x in opts.get("create_names", []) if x not in w.boxes or w.boxes[x].noselect]
        if cand:
            await w.op_create(ss, rnd.choice(cand))
    elif op == "delete":
        cand = [x for x in opts.get("create_names", []) if x in w.boxes]
        if cand:
            await w.op_delete(ss, rnd.choice(cand))
    elif op == "rename":
        cand = [x for x in opts.get("create_names", []) if x in w.boxes and not w.boxes[x].noselect]
        dst = [x for x in opts.get("create_names", []) + opts.get("rename_targets", []) if x not in w.boxes]
        if cand and dst:
            o, d = rnd.choice(cand), rnd.choice(dst)
            if not d.startswith(o + "/"):
                await w.op_rename(ss, o, d)
    elif op == "rename_inbox":
        dst = [x for x in opts.get("rename_targets", []) if x not in w.boxes]
        if dst:
            await w.op_rename(ss, "INBOX", rnd.choice(dst))
    elif op == "probe_pairs" and sel:
        await w.op_probe_pairs(ss)
    elif op == "search_flag" and sel:
        await w.op_search_flag(ss, rnd.choice(["SEEN", "UNSEEN", "DELETED", "FLAGGED", "ANSWERED", "DRAFT", "RECENT", "KEYWORD kw1", "UNKEYWORD kw1", "KEYWORD $Forwarded", "UNDELETED"]))
    elif op == "subscribe":
        await w.op_subscribe(ss, rnd.choice(sel_names), on=rnd.random() < 0.7)
    else:
        return "skip"
    return op


async def final_sync(w: World):
    """End of history: every selected session flushes; the observer looks."""
    for ss in list(w.sessions):
        if ss.dead or ss.s.writer.closed:
            continue
        if ss.idling:
            await w.op_done(ss)
        if ss.view is not None and ss.selected in w.boxes:
            await w.op_noop(ss)
    await w.observe(full=w.opts.get("observe_full", False))
