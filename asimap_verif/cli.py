"""CLI: check <ID> [--tier quick|thorough] [--replay FILE] [--jobs N]"""
import argparse
import json
import os
import sys
import time

from . import common


def main():
    ap = argparse.ArgumentParser()
    ap.add_argument("prop")
    ap.add_argument("--tier", default=os.environ.get("VERIF_TIER") or "quick", choices=["quick", "thorough"])
    ap.add_argument("--replay")
    ap.add_argument("--jobs", type=int, default=None)
    ap.add_argument("--scale", type=float, default=float(os.environ.get("VERIF_SCALE", "1")))
    a = ap.parse_args()
    prop = a.prop.upper()
    seed = int(os.environ.get("VERIF_SEED", "0") or 0)
    mod = common.load_prop(prop)
    t0 = time.monotonic()
    if a.replay:
        with open(a.replay) as f:
            rp = json.load(f)
        specs = mod.replay_specs(rp)
        os.environ["ASIMAP_VERIF_REPLAYING"] = "1"  # one case: no coverage floors, evidence file of the check left alone
        tier = rp.get("tier", a.tier)
        seed = rp.get("seed", seed)
    else:
        tier = a.tier
        specs = mod.plan(tier, seed, a.scale)
    results = common.run_shards(prop, specs, jobs=a.jobs, timeout=getattr(mod, "SHARD_TIMEOUT", {}).get(tier, 1500),
                                jail=getattr(mod, "JAIL", True))
    cases, errors, good = [], [], []
    for spec, res, err, wall in results:
        if err:
            errors.append(err)
        if res:
            if res.get("error"):
                errors.append(res["error"])
            cases.extend(res.get("cases", []))
            good.append(res)
    rc = mod.finish(tier, seed, cases, good, errors, time.monotonic() - t0)
    sys.exit(rc)


if __name__ == "__main__":
    main()
