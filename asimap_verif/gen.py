"""Seeded generators shared by the checks."""
import random

from .common import subseed


class CidFactory:
    """Every message the harness creates carries a unique content identity
    (`X-CID` header + body token): unique-value histories need no search."""

    def __init__(self, prefix="c"):
        self.n = 0
        self.prefix = prefix

    def make(self, rnd=None, extra_headers=(), body_lines=None, date="Mon, 01 Jan 2024 10:00:00 +0000", tag=""):
        self.n += 1
        cid = f"{self.prefix}{self.n}"
        hdrs = [
            f"From: sender{self.n}@example.com",
            "To: rcpt@example.org",
            f"Subject: message {cid} {tag}".rstrip(),
            f"Date: {date}",
            f"Message-ID: <{cid}@verif.example>",
            f"X-CID: {cid}",
        ]
        hdrs.extend(extra_headers)
        if body_lines is None:
            k = rnd.randint(1, 4) if rnd else 1
            body_lines = [f"body of {cid} line {i}" for i in range(k)]
        msg = "\r\n".join(hdrs) + "\r\n\r\n" + "\r\n".join(body_lines) + "\r\n"
        return cid, msg.encode("latin-1")


def rng(*parts):
    return random.Random(subseed(*parts))


def chunk(lst, n):
    """Split list into n nearly equal consecutive parts (some may be empty)."""
    k, m = divmod(len(lst), n)
    out = []
    i = 0
    for j in range(n):
        sz = k + (1 if j < m else 0)
        out.append(lst[i : i + sz])
        i += sz
    return out


def cid_of_fetch(items):
    """Extract the X-CID from a FETCH item dict (BODY[HEADER.FIELDS (X-CID)]
    or any body literal)."""
    import re

    for k, v in items.items():
        if k.startswith("BODY[") or k.startswith("RFC822"):
            if v is None:
                continue
            m = re.search(rb"(?im)^X-CID:\s*(\S+)", bytes(v))
            if m:
                return m.group(1).decode("latin-1")
    return None
