"""Plumbing shared by every check: shard workers, verdicts, evidence,
known-finding classification, replay files."""
import hashlib
import importlib
import json
import os
import shutil
import subprocess
import sys
import tempfile
import time
from collections import Counter
from concurrent.futures import ThreadPoolExecutor

VERIF = os.path.dirname(os.path.dirname(os.path.abspath(__file__)))
PY = "/venv/bin/python"
KNOWN_FINDINGS_FILE = os.path.join(VERIF, "known_findings.json")

HELD, VIOLATED, INCONCLUSIVE = "held", "violated", "inconclusive"


def h(obj):
    return hashlib.sha1(json.dumps(obj, sort_keys=True, default=repr).encode()).hexdigest()[:12]


def subseed(*parts):
    return int(hashlib.sha1(repr(parts).encode()).hexdigest()[:12], 16)


class Case(dict):
    """Result of one explored case (a plain dict so it crosses processes)."""

    @staticmethod
    def make(cid, verdict, spec=None, nontrivial=False, key=None, witness=None, sample=None, tags=None, reason=None):
        return Case(id=cid, verdict=verdict, spec=spec, nontrivial=bool(nontrivial), key=key or cid,
                    witness=witness, sample=sample, tags=tags or [], reason=reason)


# ------------------------------------------------------------------ jail
_JAIL_OK = None


def jail_available():
    global _JAIL_OK
    if _JAIL_OK is None:
        if os.environ.get("ASIMAP_VERIF_NOJAIL"):
            _JAIL_OK = False
            return False
        d = tempfile.mkdtemp(prefix="asimap-verif-jt.")
        try:
            r = subprocess.run(
                ["unshare", "-m", "sh", "-c",
                 'mount --make-rprivate / && mount --bind "$0" "$0" && mount -o remount,ro,bind / && touch "$0/x" && ! touch /asimap-verif-probe 2>/dev/null', d],
                capture_output=True, timeout=20)
            _JAIL_OK = r.returncode == 0
        except Exception:
            _JAIL_OK = False
        finally:
            shutil.rmtree(d, ignore_errors=True)
    return _JAIL_OK


def jail_prefix(scratch):
    if jail_available():
        return ["unshare", "-m", "sh", "-c",
                'mount --make-rprivate / && mount --bind "$0" "$0" && mount -o remount,ro,bind / && exec "$@"', scratch]
    return []


# ---------------------------------------------------------------- runner
def run_shards(prop, specs, jobs=None, timeout=900, jail=True):
    """Run one worker subprocess per spec (never multiprocessing.Pool: a
    worker that dies must not hang the parent).  Returns list of
    (spec, result-dict | None, error-string | None)."""
    jobs = jobs or min(16, os.cpu_count() or 4)
    scratch_root = tempfile.mkdtemp(prefix="asimap-verif.%d." % os.getpid())
    out = [None] * len(specs)

    def one(i):
        spec = specs[i]
        sdir = os.path.join(scratch_root, "w%03d" % i)
        os.makedirs(os.path.join(sdir, "tmp"))
        spec_path = os.path.join(sdir, "spec.json")
        res_path = os.path.join(sdir, "result.json")
        spec = dict(spec, scratch=sdir)
        with open(spec_path, "w") as f:
            json.dump(spec, f)
        env = dict(os.environ, PYTHONHASHSEED="0", PYTHONDONTWRITEBYTECODE="1", TMPDIR=os.path.join(sdir, "tmp"),
                   PYTHONPATH=VERIF + os.pathsep + os.environ.get("ASIMAP_REPO", "/repo"))
        cmd = (jail_prefix(sdir) if jail else []) + [PY, "-B", "-m", "asimap_verif.worker", prop, spec_path, res_path]
        t0 = time.monotonic()
        try:
            r = subprocess.run(cmd, env=env, cwd=sdir, capture_output=True, timeout=timeout)
            err = None
            if os.path.exists(res_path):
                with open(res_path) as f:
                    res = json.load(f)
            else:
                res = None
                err = "worker rc=%s no result; stderr tail: %s" % (r.returncode, r.stderr.decode("latin-1")[-1500:])
        except subprocess.TimeoutExpired:
            res, err = None, "worker wall time-out after %ss" % timeout
        out[i] = (specs[i], res, err, time.monotonic() - t0)
        shutil.rmtree(sdir, ignore_errors=True)

    try:
        with ThreadPoolExecutor(max_workers=jobs) as ex:
            list(ex.map(one, range(len(specs))))
    finally:
        shutil.rmtree(scratch_root, ignore_errors=True)
    return out


# ------------------------------------------------------- known findings
def load_known():
    if not os.path.exists(KNOWN_FINDINGS_FILE):
        return []
    with open(KNOWN_FINDINGS_FILE) as f:
        return json.load(f)["findings"]


def finish(prop, tier, seed, level, cases, *, rule, monitor_counts=None, floors=None, extra=None, assumptions=None,
           classify=None, wall=0.0, exhaustive=None, samples_max=4, errors=None):
    """Aggregate cases into a verdict, write evidence, print interface
    lines, return exit code."""
    known = [k for k in load_known() if k["property"] == prop]
    open_known = {k["id"]: k for k in known if k.get("status") == "open"}
    viol = [c for c in cases if c["verdict"] == VIOLATED]
    inconc = [c for c in cases if c["verdict"] == INCONCLUSIVE]
    new_viol = []
    known_seen = Counter()
    for c in viol:
        mechs = classify(c["witness"]) if classify else None
        if isinstance(mechs, str):
            mechs = [mechs]
        mechs = mechs or []
        c["mechanisms"] = mechs
        if mechs and all(m in open_known for m in mechs):
            for m in mechs:
                known_seen[m] += 1
        else:
            new_viol.append(c)
    # mechanisms the model tolerated while running (the case went on): they
    # are findings too -- listed ones are reported as known, others violate
    for c in cases:
        for m in c.get("known") or []:
            if m in open_known:
                known_seen[m] += 1
            elif c not in new_viol:
                c = dict(c, witness={"kind": "tolerated-mechanism-not-listed", "detail": m}, mechanisms=[m])
                new_viol.append(c)
    distinct = {}
    for c in cases:
        if c.get("nontrivial"):
            distinct.setdefault(c["key"], c)
    samples = []
    for c in cases:
        if c.get("sample") is not None and c.get("nontrivial"):
            samples.append(c["sample"])
            if len(samples) >= samples_max:
                break
    if not samples:
        samples = [c.get("sample") for c in cases[:samples_max] if c.get("sample") is not None]
    mc = dict(monitor_counts or {})
    coverage = {
        "evaluations": len(cases),
        "distinct_nontrivial": len(distinct),
        "rule": rule,
        "samples": samples or ["<no sample produced>"],
        "monitor_counts": mc,
        "inconclusive": len(inconc),
        "inconclusive_reasons": Counter(c.get("reason") or "?" for c in inconc).most_common(6),
        "known_findings_seen": dict(known_seen),
        "jail": "mount-namespace+audit-guard" if jail_available() else "audit-guard only",
    }
    if exhaustive is not None:
        coverage["exhaustive"] = bool(exhaustive)
    if extra:
        coverage.update(extra)
    if errors:
        coverage["worker_errors"] = errors[:5]
    ev = {
        "property_id": prop, "tier": tier, "seed": int(seed), "level": level, "coverage": coverage,
        "assumptions": assumptions or [], "wall_s": round(wall, 2), "violations": len(new_viol),
    }
    # ASIMAP_VERIF_OUT redirects evidence/replays (used only when validating the
    # checks against deliberately broken scratch copies, so that /verif/evidence
    # always describes a run against the real tree)
    OUT = os.environ.get("ASIMAP_VERIF_OUT") or VERIF
    if new_viol:
        coverage["violation_kinds"] = Counter(str((c.get("witness") or {}).get("kind")) for c in new_viol).most_common(12)
    replaying = bool(os.environ.get("ASIMAP_VERIF_REPLAYING"))
    os.makedirs(os.path.join(OUT, "evidence"), exist_ok=True)
    os.makedirs(os.path.join(OUT, "replays"), exist_ok=True)
    with open(os.path.join(OUT, "replays", prop + ".last-replay-evidence.json") if replaying else os.path.join(OUT, "evidence", prop + ".json"), "w") as f:
        json.dump(ev, f, indent=1, default=repr)
        f.write("\n")
    for m, n in sorted(known_seen.items()):
        print(f"KNOWN-FINDING: property={prop} {open_known[m]['what_fails']} [{m}; seen in {n} case(s)]")
    rc = 0
    if new_viol:
        os.makedirs(os.path.join(OUT, "replays"), exist_ok=True)
        shown = set()
        for c in new_viol:
            sig = h([c.get("mechanisms"), (c.get("witness") or {}).get("kind")])
            path = os.path.join(OUT, "replays", f"{prop}-{h(c['spec'])}.json")
            with open(path, "w") as f:
                json.dump({"property": prop, "tier": tier, "seed": seed, "case": c}, f, indent=1, default=repr)
            if sig in shown and len(shown) >= 1 and len(new_viol) > 8:
                continue
            shown.add(sig)
            w = c.get("witness") or {}
            print(f"VIOLATION property={prop} replay={path}")
            print(f"  case={c['id']} kind={w.get('kind')} detail={str(w.get('detail'))[:300]}")
        rc = 1
    # floors: deciding monitors must have been reached
    low = []
    for k, v in (floors or {}).items():
        if mc.get(k, 0) < v:
            low.append(f"{k}={mc.get(k, 0)}<{v}")
    if replaying:
        low = []
    if rc == 0 and not (replaying and not errors and not inconc) and (low or errors or len(inconc) > max(2, len(cases) // 10) or len(distinct) < 2):
        why = "; ".join(filter(None, [",".join(low), ("worker errors: " + errors[0][:300]) if errors else "",
                                      f"{len(inconc)} inconclusive cases" if len(inconc) > max(2, len(cases) // 10) else "",
                                      "fewer than 2 distinct non-trivial cases" if len(distinct) < 2 else ""]))
        print(f"INCONCLUSIVE property={prop} reason={why}")
        rc = 2
    print(f"{prop} {tier} seed={seed}: cases={len(cases)} distinct_nontrivial={len(distinct)} violations={len(new_viol)} "
          f"known={sum(known_seen.values())} inconclusive={len(inconc)} wall={wall:.1f}s")
    return rc


def load_prop(prop):
    return importlib.import_module("asimap_verif.props." + prop.lower())


def merge_counts(results):
    c = Counter()
    for r in results:
        if r and r.get("counts"):
            c.update(r["counts"])
    return c
