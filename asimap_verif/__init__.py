"""Runtime-monitoring framework for scanner/asimap (see /verif/DESIGN.md)."""
import os
import sys

REPO = os.environ.get("ASIMAP_REPO", "/repo")
if REPO not in sys.path:
    sys.path.insert(0, REPO)
sys.dont_write_bytecode = True
