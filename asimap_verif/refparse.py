"""Independent reference reader of the RFC 3501 `command` grammar (+ IDLE,
UIDPLUS, MOVE, UNSELECT, ID, NAMESPACE, LIST-EXTENDED/STATUS, SPECIAL-USE,
LITERAL+), hand-written from the ABNF.

read(text) -> AST dict, or raises NotSentence.  `text` is the command as the
per-user process receives it: latin-1 decoded, literals in-line after their
`{n}CRLF` (or `{n+}CRLF`) header, optionally CRLF-terminated.
"""
import datetime as dt
import re


class NotSentence(Exception):
    pass


ATOM_SPECIALS = set('(){ %*"\\]') | {chr(c) for c in range(0, 32)} | {chr(127)}
MONTHS = {m: i + 1 for i, m in enumerate(["jan", "feb", "mar", "apr", "may", "jun", "jul", "aug", "sep", "oct", "nov", "dec"])}


class R:
    allow_big = False

    def __init__(self, text):
        self.t = text
        self.i = 0

    def fail(self, why):
        raise NotSentence(f"{why} at {self.i}: {self.t[self.i:self.i + 20]!r}")

    def eof(self):
        return self.i >= len(self.t)

    def peek(self, n=1):
        return self.t[self.i : self.i + n]

    def lit(self, s, ci=True):
        seg = self.t[self.i : self.i + len(s)]
        if (seg.lower() == s.lower()) if ci else (seg == s):
            self.i += len(s)
            return True
        return False

    def need(self, s):
        if not self.lit(s):
            self.fail(f"expected {s!r}")

    def sp(self):
        if self.peek() != " ":
            self.fail("expected SP")
        self.i += 1

    def atom(self, extra=""):
        j = self.i
        while j < len(self.t) and (self.t[j] not in ATOM_SPECIALS or self.t[j] in extra) and ord(self.t[j]) < 256:
            j += 1
        if j == self.i:
            self.fail("expected atom")
        s = self.t[self.i : j]
        self.i = j
        return s

    def number(self, nz=False):
        m = re.compile(r"\d+").match(self.t, self.i)
        if not m:
            self.fail("expected number")
        self.i = m.end()
        if len(m.group()) > 4000:
            self.fail("number does not fit 32 bits (thousands of digits)")
        v = int(m.group())
        if nz and v == 0:
            self.fail("nz-number is 0")
        if v >= 2 ** 32 and not R.allow_big:
            self.fail("number does not fit 32 bits")
        return v

    def quoted(self):
        if self.peek() != '"':
            self.fail("expected quoted")
        j = self.i + 1
        out = []
        while True:
            if j >= len(self.t):
                self.fail("unterminated quoted string")
            c = self.t[j]
            if c == '"':
                break
            if c == "\\":
                if j + 1 >= len(self.t) or self.t[j + 1] not in '"\\':
                    self.fail("bad escape in quoted string")
                out.append(self.t[j + 1])
                j += 2
                continue
            if c in "\r\n" or ord(c) == 0:
                self.fail("CR/LF/NUL in quoted string")
            out.append(c)
            j += 1
        self.i = j + 1
        return "".join(out)

    def literal(self):
        m = re.compile(r"\{(\d+)\+?\}\r\n").match(self.t, self.i)
        if not m:
            self.fail("expected literal")
        if len(m.group(1)) > 4000:
            self.fail("literal longer than input")
        n = int(m.group(1))
        start = m.end()
        if start + n > len(self.t):
            self.fail("literal longer than input")
        if "\x00" in self.t[start : start + n]:
            self.fail("NUL in literal (CHAR8 excludes it)")
        self.i = start + n
        return self.t[start : start + n]

    def string(self):
        c = self.peek()
        if c == '"':
            return self.quoted()
        if c == "{":
            return self.literal()
        self.fail("expected string")

    def astring(self):
        c = self.peek()
        if c in ('"', "{"):
            return self.string()
        return self.atom(extra="]")

    def nstring(self):
        if self.peek(3).upper() == "NIL" and (self.i + 3 >= len(self.t) or self.t[self.i + 3] in " )\r"):
            self.i += 3
            return None
        return self.string()

    def mailbox(self):
        s = self.astring()
        if s.upper() == "INBOX":
            return "INBOX"
        return s

    def list_mailbox(self):
        c = self.peek()
        if c in ('"', "{"):
            return self.string()
        return self.atom(extra="%*]")

    def seq_number(self):
        if self.lit("*"):
            return "*"
        return self.number(nz=True)

    def seq_set(self):
        out = []
        while True:
            a = self.seq_number()
            if self.lit(":"):
                b = self.seq_number()
                out.append((a, b))
            else:
                out.append(a)
            if not self.lit(","):
                break
        return out

    def flag(self):
        if self.lit("\\"):
            return "\\" + self.atom()
        return self.atom()

    def flag_list(self):
        self.need("(")
        out = []
        if self.lit(")"):
            return out
        while True:
            out.append(self.flag())
            if self.lit(")"):
                return out
            self.sp()

    def date_text(self):
        m = re.compile(r"(\d{1,2})-([A-Za-z]{3})-(\d{4})").match(self.t, self.i)
        if not m or m.group(2).lower() not in MONTHS:
            self.fail("expected date")
        self.i = m.end()
        try:
            return dt.date(int(m.group(3)), MONTHS[m.group(2).lower()], int(m.group(1)))
        except ValueError:
            self.fail("impossible date")

    def date(self):
        if self.lit('"'):
            d = self.date_text()
            self.need('"')
            return d
        return self.date_text()

    def date_time(self):
        m = re.compile(r'"([ \d]\d)-([A-Za-z]{3})-(\d{4}) (\d\d):(\d\d):(\d\d) ([-+])(\d\d)(\d\d)"').match(self.t, self.i)
        if not m or m.group(2).lower() not in MONTHS:
            self.fail("expected date-time")
        self.i = m.end()
        try:
            tz = dt.timezone((1 if m.group(7) == "+" else -1) * dt.timedelta(hours=int(m.group(8)), minutes=int(m.group(9))))
            return dt.datetime(int(m.group(3)), MONTHS[m.group(2).lower()], int(m.group(1).strip()), int(m.group(4)), int(m.group(5)), int(m.group(6)), tzinfo=tz)
        except ValueError:
            self.fail("impossible date-time")

    # ------------------------------------------------------------ search
    def search_key(self, depth=0):
        if depth > 50:
            self.fail("search nesting too deep")
        if self.lit("("):
            keys = [self.search_key(depth + 1)]
            while self.lit(" "):
                keys.append(self.search_key(depth + 1))
            self.need(")")
            return keys[0] if len(keys) == 1 else ("and", keys)
        c = self.peek()
        if c.isdigit() or c == "*":
            return ("message_set", self.seq_set())
        m = re.compile(r"[A-Za-z]+").match(self.t, self.i)
        if not m:
            self.fail("expected search key")
        w = m.group().upper()
        self.i = m.end()
        simple = {"ALL": ("all",), "ANSWERED": ("keyword", "\\Answered"), "DELETED": ("keyword", "\\Deleted"), "FLAGGED": ("keyword", "\\Flagged"),
                  "SEEN": ("keyword", "\\Seen"), "DRAFT": ("keyword", "\\Draft"), "RECENT": ("keyword", "\\Recent"),
                  "NEW": ("and", [("keyword", "\\Recent"), ("not", ("keyword", "\\Seen"))]), "OLD": ("not", ("keyword", "\\Recent")),
                  "UNANSWERED": ("not", ("keyword", "\\Answered")), "UNDELETED": ("not", ("keyword", "\\Deleted")), "UNFLAGGED": ("not", ("keyword", "\\Flagged")),
                  "UNSEEN": ("not", ("keyword", "\\Seen")), "UNDRAFT": ("not", ("keyword", "\\Draft"))}
        if w in simple:
            return simple[w]
        if w in ("BCC", "CC", "FROM", "TO", "SUBJECT"):
            self.sp()
            return ("header", w.lower(), self.astring().lower())
        if w in ("BODY", "TEXT"):
            self.sp()
            return (w.lower(), self.astring().lower())
        if w in ("BEFORE", "ON", "SINCE", "SENTBEFORE", "SENTON", "SENTSINCE"):
            self.sp()
            return (w.lower(), self.date())
        if w in ("KEYWORD", "UNKEYWORD"):
            self.sp()
            k = ("keyword", self.atom())
            return k if w == "KEYWORD" else ("not", k)
        if w in ("LARGER", "SMALLER"):
            self.sp()
            return (w.lower(), self.number())
        if w == "HEADER":
            self.sp()
            f = self.astring()
            self.sp()
            return ("header", f.lower(), self.astring().lower())
        if w == "NOT":
            self.sp()
            return ("not", self.search_key(depth + 1))
        if w == "OR":
            self.sp()
            a = self.search_key(depth + 1)
            self.sp()
            return ("or", [a, self.search_key(depth + 1)])
        if w == "UID":
            self.sp()
            return ("uid", self.seq_set())
        self.fail(f"unknown search key {w}")

    # ------------------------------------------------------------- fetch
    def section(self):
        """'[' ... ']' -> list like the RFC structure."""
        self.need("[")
        sect = []
        if self.lit("]"):
            return sect
        # part numbers
        while self.peek().isdigit():
            sect.append(self.number(nz=True))
            if self.lit("."):
                if self.peek().isdigit():
                    continue
                break
            else:
                self.need("]")
                return sect
        for w in ("HEADER.FIELDS.NOT", "HEADER.FIELDS", "HEADER", "TEXT", "MIME"):
            if self.lit(w):
                if w == "MIME" and not sect:
                    self.fail("MIME needs a part number")
                if w.startswith("HEADER.FIELDS"):
                    self.sp()
                    self.need("(")
                    names = [self.astring()]
                    while self.lit(" "):
                        names.append(self.astring())
                    self.need(")")
                    sect.append((w.lower(), [n.lower() for n in names]))
                else:
                    sect.append(w.lower())
                self.need("]")
                return sect
        self.fail("bad section")

    def fetch_att(self):
        m = re.compile(r"[A-Za-z0-9.]+").match(self.t, self.i)
        if not m:
            self.fail("expected fetch att")
        w = m.group().upper()
        if w.startswith("BODY.PEEK"):
            w = "BODY.PEEK"
        elif w.startswith("BODYSTRUCTURE"):
            w = "BODYSTRUCTURE"
        elif w.startswith("BODY") and not w.startswith("BODYS"):
            w = "BODY"
        self.i += len(w)
        if w in ("ENVELOPE", "FLAGS", "INTERNALDATE", "RFC822.SIZE", "UID", "BODYSTRUCTURE"):
            return {"att": w.lower()}
        if w == "RFC822":
            return {"att": "body", "section": [], "peek": False, "partial": None}
        if w == "RFC822.HEADER":
            return {"att": "body", "section": ["header"], "peek": True, "partial": None}
        if w == "RFC822.TEXT":
            return {"att": "body", "section": ["text"], "peek": False, "partial": None}
        if w in ("BODY", "BODY.PEEK"):
            if w == "BODY" and self.peek() != "[":
                return {"att": "bodystructure", "noext": True}
            sect = self.section()
            partial = None
            if self.lit("<"):
                a = self.number()
                self.need(".")
                b = self.number(nz=True)
                self.need(">")
                partial = (a, b)
            return {"att": "body", "section": sect, "peek": w == "BODY.PEEK", "partial": partial}
        self.fail(f"unknown fetch att {w}")

    def fetch_atts(self):
        if self.lit("("):
            out = [self.fetch_att()]
            while self.lit(" "):
                out.append(self.fetch_att())
            self.need(")")
            return out
        for macro, exp in (("ALL", ["flags", "internaldate", "rfc822.size", "envelope"]), ("FULL", ["flags", "internaldate", "rfc822.size", "envelope", "BODY"]), ("FAST", ["flags", "internaldate", "rfc822.size"])):
            if self.t[self.i : self.i + len(macro)].upper() == macro and (self.i + len(macro) >= len(self.t) or self.t[self.i + len(macro)] in "\r"):
                self.i += len(macro)
                return [({"att": a} if a != "BODY" else {"att": "bodystructure", "noext": True}) for a in exp]
        return [self.fetch_att()]


STATUS_ATTS = ["MESSAGES", "RECENT", "UIDNEXT", "UIDVALIDITY", "UNSEEN"]
SELECT_OPTS = ["SUBSCRIBED", "REMOTE", "RECURSIVEMATCH", "SPECIAL-USE"]
RETURN_OPTS = ["SUBSCRIBED", "CHILDREN", "STATUS", "SPECIAL-USE"]


def read(text):
    r = R(text)
    m = re.compile(r'[^\x00-\x20\x7f(){%*"\\+]+').match(text)
    if not m or any(ord(c) > 255 for c in m.group()):
        raise NotSentence("no tag")
    r.i = m.end()
    ast = {"tag": m.group(), "uid": False}
    r.sp()
    cmd = r.atom().upper()
    if cmd == "UID":
        r.sp()
        cmd = r.atom().upper()
        if cmd not in ("COPY", "FETCH", "SEARCH", "STORE", "MOVE", "EXPUNGE"):
            raise NotSentence("bad UID command")
        ast["uid"] = True
    ast["cmd"] = cmd.lower()
    if cmd in ("CAPABILITY", "LOGOUT", "NOOP", "CHECK", "CLOSE", "IDLE", "NAMESPACE", "UNSELECT"):
        pass
    elif cmd == "EXPUNGE":
        if ast["uid"]:
            r.sp()
            ast["set"] = r.seq_set()
    elif cmd in ("SELECT", "EXAMINE", "CREATE", "DELETE", "SUBSCRIBE", "UNSUBSCRIBE"):
        r.sp()
        ast["mailbox"] = r.mailbox()
    elif cmd == "RENAME":
        r.sp()
        ast["src"] = r.mailbox()
        r.sp()
        ast["dst"] = r.mailbox()
    elif cmd == "LOGIN":
        r.sp()
        ast["user"] = r.astring()
        r.sp()
        ast["password"] = r.astring()
    elif cmd == "AUTHENTICATE":
        r.sp()
        ast["mechanism"] = r.atom().lower()
    elif cmd in ("LIST", "LSUB"):
        r.sp()
        ast["select_opts"] = set()
        ast["return_opts"] = set()
        ast["status_atts"] = []
        ast["patterns"] = None
        if r.peek() == "(":
            r.need("(")
            if not r.lit(")"):
                while True:
                    o = r.atom().upper()
                    if o not in SELECT_OPTS:
                        r.fail("unknown select option")
                    ast["select_opts"].add(o.lower())
                    if r.lit(")"):
                        break
                    r.sp()
            if "recursivematch" in ast["select_opts"] and not (ast["select_opts"] - {"recursivematch", "remote"}):
                r.fail("RECURSIVEMATCH alone")
            r.sp()
        ast["reference"] = r.mailbox()
        r.sp()
        if r.peek() == "(":
            r.need("(")
            pats = [r.list_mailbox()]
            while r.lit(" "):
                pats.append(r.list_mailbox())
            r.need(")")
            ast["patterns"] = pats
        else:
            ast["pattern"] = r.list_mailbox()
        if r.peek() == " ":
            r.sp()
            r.need("RETURN")
            r.sp()
            r.need("(")
            if not r.lit(")"):
                while True:
                    o = r.atom().upper()
                    if o not in RETURN_OPTS:
                        r.fail("unknown return option")
                    ast["return_opts"].add(o.lower())
                    if o == "STATUS":
                        r.sp()
                        r.need("(")
                        atts = []
                        while True:
                            a = r.atom().upper()
                            if a not in STATUS_ATTS:
                                r.fail("bad status att")
                            atts.append(a.lower())
                            if r.lit(")"):
                                break
                            r.sp()
                        ast["status_atts"] = atts
                    if r.lit(")"):
                        break
                    r.sp()
    elif cmd == "STATUS":
        r.sp()
        ast["mailbox"] = r.mailbox()
        r.sp()
        r.need("(")
        atts = []
        while True:
            a = r.atom().upper()
            if a not in STATUS_ATTS:
                r.fail("bad status att")
            atts.append(a.lower())
            if r.lit(")"):
                break
            r.sp()
        ast["status_atts"] = atts
    elif cmd == "ID":
        r.sp()
        if r.lit("NIL"):
            ast["id"] = {}
        else:
            r.need("(")
            d = {}
            if not r.lit(")"):
                while True:
                    k = r.string()
                    r.sp()
                    d[k] = r.nstring()
                    if r.lit(")"):
                        break
                    r.sp()
            ast["id"] = d
    elif cmd == "APPEND":
        r.sp()
        ast["mailbox"] = r.mailbox()
        r.sp()
        ast["flags"] = []
        ast["date_time"] = None
        if r.peek() == "(":
            ast["flags"] = r.flag_list()
            r.sp()
        if r.peek() == '"':
            ast["date_time"] = r.date_time()
            r.sp()
        if r.peek() != "{":
            r.fail("APPEND needs a literal")
        ast["message"] = r.literal()
    elif cmd == "SEARCH":
        r.sp()
        ast["charset"] = "us-ascii"
        if r.t[r.i : r.i + 8].upper() == "CHARSET ":
            r.i += 8
            ast["charset"] = r.astring().lower()
            r.sp()
        keys = [r.search_key()]
        while r.lit(" "):
            keys.append(r.search_key())
        ast["search"] = ("and", keys)
    elif cmd == "FETCH":
        r.sp()
        ast["set"] = r.seq_set()
        r.sp()
        ast["fetch"] = r.fetch_atts()
    elif cmd == "STORE":
        r.sp()
        ast["set"] = r.seq_set()
        r.sp()
        ast["action"] = "replace"
        if r.lit("+"):
            ast["action"] = "add"
        elif r.lit("-"):
            ast["action"] = "remove"
        r.need("FLAGS")
        ast["silent"] = r.lit(".SILENT")
        r.sp()
        if r.peek() == "(":
            ast["flags"] = r.flag_list()
        else:
            fl = [r.flag()]
            while r.lit(" "):
                fl.append(r.flag())
            ast["flags"] = fl
    elif cmd in ("COPY", "MOVE"):
        r.sp()
        ast["set"] = r.seq_set()
        r.sp()
        ast["mailbox"] = r.mailbox()
    else:
        raise NotSentence(f"unknown command {cmd}")
    if r.t[r.i :] not in ("", "\r\n"):
        raise NotSentence(f"trailing data {r.t[r.i:r.i + 20]!r}")
    return ast
