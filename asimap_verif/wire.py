"""Strict, independent parser for what an IMAP4rev1 server may send.

Written from RFC 3501 section 9 (`response`) plus the extensions asimap
advertises; nothing here is derived from asimap's formatting code.

parse_stream(buf) -> (responses, consumed, error)
    responses: list of Resp; consumed: number of octets that formed complete
    responses; error: None or a WireError describing the first malformed
    response (parsing stops there).  A trailing incomplete response is not an
    error for parse_stream; callers decide at quiescent points.
"""
import re


class WireError(Exception):
    def __init__(self, rule, msg, pos, context=b""):
        super().__init__(f"{rule}: {msg} at {pos}: {context[:80]!r}")
        self.rule = rule  # crlf | literal | quoted | parens | syntax | arity
        self.msg = msg
        self.pos = pos
        self.context = bytes(context[:120])


class Incomplete(Exception):
    pass


class Atom(str):
    """An unquoted token (atom, flag, NIL is represented by None)."""

    __slots__ = ()


class QStr(bytes):
    """A quoted string (decoded) -- distinguishes from literals."""

    __slots__ = ()


class Lit(bytes):
    """A literal's octets."""

    __slots__ = ()


class Resp:
    __slots__ = ("kind", "tag", "status", "code", "text", "num", "name", "data", "raw", "diag")

    def __init__(self, kind, **kw):
        self.kind = kind  # tagged | status | cont | num | data
        self.tag = kw.get("tag")
        self.status = kw.get("status")
        self.code = kw.get("code")
        self.text = kw.get("text")
        self.num = kw.get("num")
        self.name = kw.get("name")
        self.data = kw.get("data")
        self.raw = kw.get("raw", b"")
        self.diag = kw.get("diag", [])

    def __repr__(self):
        if self.kind == "tagged":
            return f"<{self.tag} {self.status} {self.text!r}>"
        if self.kind == "status":
            return f"<* {self.status} [{self.code}] {self.text!r}>"
        if self.kind == "cont":
            return f"<+ {self.text!r}>"
        if self.kind == "num":
            return f"<* {self.num} {self.name} {self.data!r}>"
        return f"<* {self.name} {self.data!r}>"


ATOM_SPECIALS = set(b'(){ %*"\\]') | set(range(0, 32)) | {127}
_TAG_RE = re.compile(rb"[^\x00-\x20\x7f(){%*\"\\+]+")
_NUM_RE = re.compile(rb"\d+")
_STATUS = (b"OK", b"NO", b"BAD", b"BYE", b"PREAUTH")
_DATE_TIME_RE = re.compile(
    rb"^[ \d]\d-(Jan|Feb|Mar|Apr|May|Jun|Jul|Aug|Sep|Oct|Nov|Dec)-\d{4} \d\d:\d\d:\d\d [-+]\d{4}$"
)


class _P:
    """Cursor over a byte buffer."""

    def __init__(self, buf, pos):
        self.b = buf
        self.i = pos
        self.diag = []

    def peek(self):
        if self.i >= len(self.b):
            raise Incomplete()
        return self.b[self.i]

    def need(self, n):
        if self.i + n > len(self.b):
            raise Incomplete()

    def lit(self, s):
        self.need(len(s))
        if self.b[self.i : self.i + len(s)] != s:
            raise WireError("syntax", f"expected {s!r}", self.i, self.b[self.i : self.i + 40])
        self.i += len(s)

    def try_lit(self, s):
        self.need(len(s))
        if self.b[self.i : self.i + len(s)] == s:
            self.i += len(s)
            return True
        return False

    def sp(self):
        self.lit(b" ")

    def crlf(self):
        self.need(2)
        if self.b[self.i : self.i + 2] != b"\r\n":
            raise WireError("crlf", "expected CRLF at end of response", self.i, self.b[max(0, self.i - 30) : self.i + 30])
        self.i += 2

    def number(self):
        m = _NUM_RE.match(self.b, self.i)
        if not m:
            self.peek()
            raise WireError("syntax", "expected number", self.i, self.b[self.i : self.i + 40])
        if m.end() == len(self.b):
            raise Incomplete()
        self.i = m.end()
        return int(m.group())

    def atom(self, extra_ok=b""):
        j = self.i
        n = len(self.b)
        while j < n and (self.b[j] not in ATOM_SPECIALS or self.b[j] in extra_ok):
            j += 1
        if j >= n:
            raise Incomplete()
        if j == self.i:
            raise WireError("syntax", "expected atom", self.i, self.b[self.i : self.i + 40])
        s = self.b[self.i : j]
        self.i = j
        return Atom(s.decode("latin-1"))

    def quoted(self):
        assert self.peek() == 0x22
        j = self.i + 1
        out = bytearray()
        n = len(self.b)
        while True:
            if j >= n:
                raise Incomplete()
            c = self.b[j]
            if c == 0x22:
                break
            if c == 0x5C:
                if j + 1 >= n:
                    raise Incomplete()
                d = self.b[j + 1]
                if d not in (0x22, 0x5C):
                    raise WireError("quoted", "backslash not followed by DQUOTE or backslash", j, self.b[self.i : j + 20])
                out.append(d)
                j += 2
                continue
            if c in (0x0D, 0x0A):
                raise WireError("quoted", "raw CR/LF inside quoted string (or unterminated quoted string)", j, self.b[self.i : j + 20])
            if c == 0:
                raise WireError("quoted", "NUL inside quoted string", j, self.b[self.i : j + 20])
            out.append(c)
            j += 1
        self.i = j + 1
        return QStr(bytes(out))

    def literal(self):
        assert self.peek() == 0x7B
        m = re.compile(rb"\{(\d+)\}\r\n").match(self.b, self.i)
        if not m:
            # maybe incomplete header
            tail = self.b[self.i : self.i + 30]
            if re.fullmatch(rb"\{\d*\}?\r?", tail):
                raise Incomplete()
            raise WireError("literal", "malformed literal header", self.i, tail)
        n = int(m.group(1))
        start = m.end()
        if start + n > len(self.b):
            raise Incomplete()
        self.i = start + n
        return Lit(self.b[start : start + n])

    def string(self):
        c = self.peek()
        if c == 0x22:
            return self.quoted()
        if c == 0x7B:
            return self.literal()
        raise WireError("syntax", "expected string", self.i, self.b[self.i : self.i + 40])

    def nstring(self):
        c = self.peek()
        if c in (0x4E, 0x6E):  # N
            self.need(3)
            if self.b[self.i : self.i + 3].upper() == b"NIL":
                self.i += 3
                return None
        return self.string()

    def astring(self):
        c = self.peek()
        if c in (0x22, 0x7B):
            return self.string()
        return self.atom(extra_ok=b"]")

    def value(self, depth=0):
        """Generic value: list / string / NIL / number / atom."""
        if depth > 200:
            raise WireError("parens", "nesting too deep", self.i)
        c = self.peek()
        if c == 0x28:
            return self.plist(depth)
        if c == 0x22:
            return self.quoted()
        if c == 0x7B:
            return self.literal()
        if c == 0x29:
            raise WireError("parens", "unexpected ')'", self.i, self.b[max(0, self.i - 30) : self.i + 10])
        a = self.atom(extra_ok=b"\\]")
        if a.upper() == "NIL":
            return None
        return a

    def plist(self, depth=0):
        self.lit(b"(")
        out = []
        if self.peek() == 0x29:
            self.i += 1
            return out
        while True:
            out.append(self.value(depth + 1))
            c = self.peek()
            if c == 0x29:
                self.i += 1
                return out
            if c == 0x20:
                self.i += 1
                if self.peek() == 0x29:
                    raise WireError("syntax", "SP before ')'", self.i, self.b[max(0, self.i - 30) : self.i + 4])
                continue
            if c == 0x28:
                # adjacent lists without SP: legal only between body parts (1*body) and between addresses (1*address)
                if not (getattr(self, "adjacent_ok", False) and isinstance(out[-1], list)):
                    raise WireError("syntax", "'(' follows a value without SP", self.i, self.b[max(0, self.i - 30) : self.i + 10])
                self.diag.append("adjacent lists without SP")
                continue
            if c in (0x0D, 0x0A):
                raise WireError("parens", "response ended inside a parenthesised list", self.i, self.b[max(0, self.i - 40) : self.i + 4])
            if c == 0x22:
                # (RFC 3501: every two values of a list are separated by SP; '1*body SP media-subtype' in particular)
                raise WireError("syntax", "quoted string follows a value without SP", self.i, self.b[max(0, self.i - 30) : self.i + 10])
            if isinstance(out[-1], QStr):
                raise WireError("quoted", "quoted string followed by neither SP nor ')': unescaped DQUOTE inside?", self.i, self.b[max(0, self.i - 40) : self.i + 10])
            raise WireError("syntax", "expected SP or ')' in list", self.i, self.b[max(0, self.i - 30) : self.i + 10])


def _check_text(p, start, end):
    seg = p.b[start:end]
    if b"\r" in seg or b"\n" in seg or b"\x00" in seg:
        raise WireError("crlf", "bare CR, LF or NUL inside response text", start, seg)


def _resp_text(p):
    """[code] text CRLF ; returns (code, text)."""
    eol = p.b.find(b"\r\n", p.i)
    if eol < 0:
        # A bare LF before any CRLF is already wrong, but we cannot know the
        # line is complete: treat as incomplete.
        raise Incomplete()
    code = None
    start = p.i
    if start < eol and p.b[start] == 0x5B:
        close = p.b.find(b"]", start, eol)
        if close < 0:
            raise WireError("syntax", "unterminated response code", start, p.b[start:eol])
        code = p.b[start + 1 : close].decode("latin-1")
        start = close + 1
        if start < eol and p.b[start] == 0x20:
            start += 1
        elif start < eol:
            raise WireError("syntax", "no SP between the response code and the text", start, p.b[max(0, start - 30) : start + 10])
    _check_text(p, p.i, eol)
    text = p.b[start:eol].decode("latin-1")
    p.i = eol + 2
    return code, text


def _flag_list(p):
    p.lit(b"(")
    flags = []
    if p.peek() == 0x29:
        p.i += 1
        return flags
    while True:
        if p.try_lit(b"\\"):
            if p.peek() == 0x2A:
                p.i += 1
                flags.append("\\*")
            else:
                flags.append("\\" + p.atom())
        else:
            flags.append(str(p.atom()))
        c = p.peek()
        if c == 0x29:
            p.i += 1
            return flags
        p.sp()
        if p.peek() == 0x20:
            raise WireError("syntax", "double SP in flag list", p.i, p.b[max(0, p.i - 30) : p.i + 10])


def _address_list(p, v, where):
    if v is None:
        return
    if not isinstance(v, list) or not v:
        raise WireError("arity", f"{where}: address list must be NIL or a non-empty list", p.i)
    for a in v:
        if not isinstance(a, list) or len(a) != 4:
            raise WireError("arity", f"{where}: address must have 4 fields, got {a!r:.80}", p.i)
        for f in a:
            if not (f is None or isinstance(f, (QStr, Lit))):
                raise WireError("arity", f"{where}: address field must be nstring", p.i)


def check_envelope(p, v):
    if not isinstance(v, list) or len(v) != 10:
        raise WireError("arity", f"envelope must have 10 fields, got {len(v) if isinstance(v, list) else v!r}", p.i)
    for idx in (0, 1, 8, 9):
        if not (v[idx] is None or isinstance(v[idx], (QStr, Lit))):
            raise WireError("arity", f"envelope field {idx} must be nstring", p.i)
    for idx in range(2, 8):
        _address_list(p, v[idx], f"envelope[{idx}]")


def check_body(p, v, ext, depth=0):
    """Validate a parsed BODY/BODYSTRUCTURE tree to RFC 3501 arities."""
    if not isinstance(v, list) or not v:
        raise WireError("arity", "body must be a non-empty list", p.i)
    if isinstance(v[0], list):
        # multipart: 1*body SP media-subtype [ext]
        k = 0
        while k < len(v) and isinstance(v[k], list):
            check_body(p, v[k], ext, depth + 1)
            k += 1
        if k >= len(v) or not isinstance(v[k], (QStr, Lit)):
            raise WireError("arity", "multipart body lacks media-subtype string", p.i)
        rest = v[k + 1 :]
        if not ext and rest:
            raise WireError("arity", "BODY (non-extensible) multipart carries extension data", p.i)
        if rest:
            prm = rest[0]
            if not (prm is None or (isinstance(prm, list) and len(prm) % 2 == 0)):
                raise WireError("arity", "multipart body-fld-param must be NIL or pairs", p.i)
        return
    # single part
    if len(v) < 7:
        raise WireError("arity", f"single-part body needs >=7 fields, got {len(v)}", p.i)
    mt, st, prm, bid, desc, enc, octets = v[:7]
    for s in (mt, st, enc):
        if not isinstance(s, (QStr, Lit)):
            raise WireError("arity", "media type/subtype/encoding must be strings", p.i)
    if not (prm is None or (isinstance(prm, list) and len(prm) % 2 == 0 and all(isinstance(x, (QStr, Lit)) for x in prm))):
        raise WireError("arity", "body-fld-param must be NIL or string pairs", p.i)
    for s in (bid, desc):
        if not (s is None or isinstance(s, (QStr, Lit))):
            raise WireError("arity", "body id/description must be nstring", p.i)
    if not (isinstance(octets, Atom) and octets.isdigit()):
        raise WireError("arity", "body-fld-octets must be a number", p.i)
    k = 7
    mtu = bytes(mt).upper()
    stu = bytes(st).upper()
    if mtu == b"MESSAGE" and stu == b"RFC822":
        if len(v) < 10:
            raise WireError("arity", "message/rfc822 body needs envelope, body, lines", p.i)
        check_envelope(p, v[7])
        check_body(p, v[8], ext, depth + 1)
        if not (isinstance(v[9], Atom) and v[9].isdigit()):
            raise WireError("arity", "message/rfc822 lines must be a number", p.i)
        k = 10
    elif mtu == b"TEXT":
        if len(v) < 8 or not (isinstance(v[7], Atom) and v[7].isdigit()):
            raise WireError("arity", "text body needs a line count", p.i)
        k = 8
    rest = v[k:]
    if not ext and rest:
        raise WireError("arity", "BODY (non-extensible) carries extension data", p.i)
    if rest:
        md5 = rest[0]
        if not (md5 is None or isinstance(md5, (QStr, Lit))):
            raise WireError("arity", "body-fld-md5 must be nstring", p.i)
        if len(rest) > 1:
            dsp = rest[1]
            if not (dsp is None or (isinstance(dsp, list) and len(dsp) == 2 and isinstance(dsp[0], (QStr, Lit)) and (dsp[1] is None or (isinstance(dsp[1], list) and len(dsp[1]) % 2 == 0)))):
                raise WireError("arity", f"body-fld-dsp malformed: {dsp!r:.80}", p.i)


_ITEM_NAME = re.compile(rb"[A-Za-z0-9.]+")


_SECTION_HEAD = re.compile(rb"(?:(?P<part>[1-9][0-9]*(?:\.[1-9][0-9]*)*)(?:\.(?P<text1>[A-Za-z.]+))?|(?P<text2>[A-Za-z.]+))?")


def _check_section(b, start, end):
    """RFC 3501 `section-spec` between the brackets:
    section-msgtext / (section-part ["." section-text]); the header list of
    HEADER.FIELDS[.NOT] is "(" astring *(SP astring) ")"."""
    body = bytes(b[start:end])
    if body == b"":
        return
    m = _SECTION_HEAD.match(body)
    word = (m.group("text1") or m.group("text2") or b"").upper()
    rest = body[m.end():]
    if m.end() == 0:
        raise WireError("syntax", "malformed section spec", start, body[:60])
    if word in (b"", b"HEADER", b"TEXT") or (word == b"MIME" and m.group("part")):
        if rest:
            raise WireError("syntax", "unexpected text after section spec", start + m.end(), body[:60])
        return
    if word not in (b"HEADER.FIELDS", b"HEADER.FIELDS.NOT"):
        raise WireError("syntax", f"unknown section text {word!r}", start, body[:60])
    q = _P(body + b"\r\n", m.end())
    try:
        q.sp()
        q.lit(b"(")
        q.astring()
        while q.peek() == 0x20:
            q.sp()
            q.astring()
        q.lit(b")")
    except Incomplete:
        raise WireError("syntax", "malformed header list in section spec", start, body[:80]) from None
    except WireError as e:
        raise WireError(e.rule, "header list in section spec: " + e.msg, start + q.i, body[:80]) from None
    if q.i != len(body):
        raise WireError("syntax", "unexpected text after header list in section spec", start + q.i, body[:80])


def _fetch_items(p):
    """'(' item *(SP item) ')'  -> dict name -> value (names upper-cased;
    BODY[...] names keep the section text verbatim, upper-cased keyword)."""
    p.lit(b"(")
    items = []
    if p.peek() == 0x29:
        p.i += 1
        return items
    while True:
        start = p.i
        m = _ITEM_NAME.match(p.b, p.i)
        if not m:
            p.peek()
            raise WireError("syntax", "expected FETCH data item name", p.i, p.b[p.i : p.i + 40])
        if m.end() >= len(p.b):
            raise Incomplete()
        p.i = m.end()
        name = m.group().decode("latin-1")
        uname = name.upper()
        if uname in ("BODY", "BODY.PEEK") and p.peek() == 0x5B:
            # section: scan to the matching ']' (header lists may contain
            # parentheses, quoted strings)
            j = p.i + 1
            n = len(p.b)
            while True:
                if j >= n:
                    raise Incomplete()
                c = p.b[j]
                if c == 0x5D:
                    break
                if c in (0x0D, 0x0A):
                    raise WireError("syntax", "response ended inside section spec", j, p.b[start : j + 4])
                if c == 0x22:
                    q = _P(p.b, j)
                    q.quoted()
                    j = q.i
                    continue
                j += 1
            section = p.b[p.i + 1 : j].decode("latin-1")
            _check_section(p.b, p.i + 1, j)
            p.i = j + 1
            origin = None
            if p.peek() == 0x3C:
                m = re.compile(rb"<(\d+)>").match(p.b, p.i)
                if not m:
                    if p.b.find(b">", p.i) < 0 and p.b.find(b"\r", p.i) < 0:
                        raise Incomplete()
                    raise WireError("syntax", "malformed partial origin", p.i, p.b[p.i : p.i + 20])
                origin = int(m.group(1))
                p.i = m.end()
            p.sp()
            val = p.nstring()
            items.append((f"BODY[{section}]" + (f"<{origin}>" if origin is not None else ""), val))
        elif uname == "FLAGS":
            p.sp()
            items.append(("FLAGS", _flag_list(p)))
        elif uname in ("UID", "RFC822.SIZE"):
            p.sp()
            items.append((uname, p.number()))
        elif uname == "INTERNALDATE":
            p.sp()
            if p.peek() != 0x22:
                raise WireError("syntax", "INTERNALDATE must be a quoted date-time", p.i, p.b[p.i : p.i + 40])
            q = p.quoted()
            if not _DATE_TIME_RE.match(q):
                raise WireError("syntax", f"INTERNALDATE not a date-time: {bytes(q)!r}", p.i)
            items.append((uname, bytes(q).decode("latin-1")))
        elif uname in ("RFC822", "RFC822.HEADER", "RFC822.TEXT"):
            p.sp()
            items.append((uname, p.nstring()))
        elif uname == "ENVELOPE":
            p.sp()
            p.adjacent_ok = True
            try:
                v = p.value()
            finally:
                p.adjacent_ok = False
            check_envelope(p, v)
            items.append((uname, v))
        elif uname in ("BODY", "BODYSTRUCTURE"):
            p.sp()
            p.adjacent_ok = True
            try:
                v = p.value()
            finally:
                p.adjacent_ok = False
            check_body(p, v, ext=(uname == "BODYSTRUCTURE"))
            items.append((uname, v))
        else:
            raise WireError("syntax", f"unknown FETCH data item {name!r}", start, p.b[start : start + 40])
        c = p.peek()
        if c == 0x29:
            p.i += 1
            return items
        p.sp()


def _parse_one(buf, pos):
    """Parse one response at pos.  Returns (Resp, newpos).  Raises
    Incomplete or WireError."""
    p = _P(buf, pos)
    c = p.peek()
    if c == 0x2B:  # '+'
        p.i += 1
        eol = buf.find(b"\r\n", p.i)
        if eol < 0:
            raise Incomplete()
        if eol > p.i and buf[p.i] != 0x20:
            raise WireError("syntax", "continuation lacks SP", p.i, buf[pos : eol])
        _check_text(p, p.i, eol)
        text = buf[p.i + 1 : eol].decode("latin-1") if eol > p.i else ""
        return Resp("cont", text=text, raw=buf[pos : eol + 2]), eol + 2
    if c == 0x2A:  # '*'
        p.i += 1
        p.sp()
        c2 = p.peek()
        if 0x30 <= c2 <= 0x39:
            n = p.number()
            p.sp()
            name = p.atom().upper()
            if name in ("EXISTS", "RECENT", "EXPUNGE"):
                p.crlf()
                return Resp("num", num=n, name=name, raw=buf[pos : p.i], diag=p.diag), p.i
            if name == "FETCH":
                p.sp()
                items = _fetch_items(p)
                p.crlf()
                return Resp("num", num=n, name="FETCH", data=items, raw=buf[pos : p.i], diag=p.diag), p.i
            raise WireError("syntax", f"unknown numbered response {name}", pos, buf[pos : pos + 60])
        name = p.atom().upper()
        if name.encode() in _STATUS:
            if p.peek() == 0x20:
                p.i += 1
            else:
                p.diag.append("status without text")
            code, text = _resp_text(p)
            return Resp("status", status=name, code=code, text=text, raw=buf[pos : p.i], diag=p.diag), p.i
        if name == "SEARCH":
            nums = []
            while p.peek() == 0x20:
                p.i += 1
                if p.peek() == 0x0D:
                    p.diag.append("trailing SP in SEARCH")
                    break
                nums.append(p.number())
            p.crlf()
            return Resp("data", name=name, data=nums, raw=buf[pos : p.i], diag=p.diag), p.i
        if name == "FLAGS":
            p.sp()
            fl = _flag_list(p)
            p.crlf()
            return Resp("data", name=name, data=fl, raw=buf[pos : p.i]), p.i
        if name in ("LIST", "LSUB"):
            p.sp()
            attrs = _flag_list(p)
            p.sp()
            c3 = p.peek()
            if c3 == 0x22:
                delim = p.quoted()
                if len(delim) != 1:
                    raise WireError("syntax", "hierarchy delimiter must be one character", p.i)
            else:
                a = p.atom()
                if a.upper() != "NIL":
                    raise WireError("syntax", "delimiter must be quoted char or NIL", p.i)
                delim = None
            p.sp()
            mbox = p.astring()
            ext = None
            if p.peek() == 0x20:
                p.i += 1
                ext = p.value()
            p.crlf()
            return Resp("data", name=name, data={"attrs": attrs, "delim": delim, "name": mbox, "ext": ext}, raw=buf[pos : p.i], diag=p.diag), p.i
        if name == "STATUS":
            p.sp()
            mbox = p.astring()
            p.sp()
            lst = p.plist()
            if len(lst) % 2:
                raise WireError("arity", "STATUS att list must be pairs", p.i)
            d = {}
            for k in range(0, len(lst), 2):
                if not (isinstance(lst[k], Atom) and isinstance(lst[k + 1], Atom) and lst[k + 1].isdigit()):
                    raise WireError("syntax", "STATUS att must be atom SP number", p.i)
                d[lst[k].upper()] = int(lst[k + 1])
            p.crlf()
            return Resp("data", name=name, data={"name": mbox, "atts": d}, raw=buf[pos : p.i], diag=p.diag), p.i
        if name == "CAPABILITY":
            caps = []
            while p.peek() == 0x20:
                p.i += 1
                caps.append(str(p.atom(extra_ok=b"")))
            p.crlf()
            return Resp("data", name=name, data=caps, raw=buf[pos : p.i]), p.i
        if name in ("NAMESPACE", "ID"):
            vals = []
            while p.peek() == 0x20:
                p.i += 1
                vals.append(p.value())
            p.crlf()
            return Resp("data", name=name, data=vals, raw=buf[pos : p.i], diag=p.diag), p.i
        raise WireError("syntax", f"unknown untagged response {name}", pos, buf[pos : pos + 60])
    # tagged
    m = _TAG_RE.match(buf, pos)
    if not m:
        raise WireError("syntax", "response starts with neither '*', '+' nor a tag", pos, buf[pos : pos + 60])
    if m.end() >= len(buf):
        raise Incomplete()
    p.i = m.end()
    tag = m.group().decode("latin-1")
    p.sp()
    st = p.atom().upper()
    if st.encode() not in (b"OK", b"NO", b"BAD"):
        raise WireError("syntax", f"tagged response status {st!r}", pos, buf[pos : pos + 60])
    if p.peek() == 0x20:
        p.i += 1
    else:
        p.diag.append("status without text")
    code, text = _resp_text(p)
    return Resp("tagged", tag=tag, status=st, code=code, text=text, raw=buf[pos : p.i], diag=p.diag), p.i


def parse_stream(buf, pos=0):
    buf = bytes(buf)
    out = []
    err = None
    while pos < len(buf):
        try:
            r, npos = _parse_one(buf, pos)
        except Incomplete:
            break
        except WireError as e:
            err = e
            break
        out.append(r)
        pos = npos
    return out, pos, err


# -------------------------------------------------------------------- POP3
class Pop3Reply:
    __slots__ = ("ok", "line", "body", "raw_body", "raw")

    def __init__(self, ok, line, body=None, raw_body=None, raw=b""):
        self.ok = ok
        self.line = line
        self.body = body  # un-stuffed payload bytes (multi-line) or None
        self.raw_body = raw_body
        self.raw = raw

    def __repr__(self):
        return f"<POP3 {'+OK' if self.ok else '-ERR'} {self.line!r} body={None if self.body is None else len(self.body)}>"


def parse_pop3_reply(buf, pos, multiline):
    """Parse one POP3 reply at pos.  Returns (Pop3Reply, newpos) or raises
    Incomplete / WireError."""
    eol = buf.find(b"\r\n", pos)
    if eol < 0:
        raise Incomplete()
    line = buf[pos:eol]
    if b"\r" in line or b"\n" in line:
        raise WireError("crlf", "bare CR/LF in POP3 status line", pos, line)
    if line.startswith(b"+OK"):
        ok = True
    elif line.startswith(b"-ERR"):
        ok = False
    else:
        raise WireError("syntax", "POP3 reply is neither +OK nor -ERR", pos, line)
    p = eol + 2
    if not (ok and multiline):
        return Pop3Reply(ok, line.decode("latin-1"), raw=buf[pos:p]), p
    # multi-line: lines until ".\r\n"
    start = p
    lines = []
    while True:
        e = buf.find(b"\r\n", p)
        if e < 0:
            raise Incomplete()
        ln = buf[p:e]
        if ln == b".":
            end = e + 2
            break
        if b"\r" in ln or b"\n" in ln:
            raise WireError("crlf", "bare CR/LF inside POP3 multi-line reply", p, ln)
        if ln.startswith(b"."):
            ln = ln[1:]
        lines.append(ln)
        p = e + 2
    body = b"".join(x + b"\r\n" for x in lines)
    return Pop3Reply(True, line.decode("latin-1"), body=body, raw_body=buf[start:end], raw=buf[pos:end]), end
