"""Shard worker: python -m asimap_verif.worker PROP spec.json result.json

Runs one shard of a property's workload in its own process, writes the
result file, flushes, and leaves with os._exit(): a server that failed
half-way can leave a non-daemon aiosqlite thread behind and the interpreter
would otherwise never exit."""
import json
import logging
import os
import sys
import traceback


def main():
    prop, spec_path, res_path = sys.argv[1:4]
    logging.basicConfig(level=logging.CRITICAL)
    logging.getLogger("asimap").setLevel(logging.WARNING)
    logging.getLogger("asimap").propagate = False
    with open(spec_path) as f:
        spec = json.load(f)
    rc = 0
    try:
        from asimap_verif import common
        from asimap_verif.rig import install_guard

        scratch = spec.get("scratch") or os.getcwd()
        install_guard([scratch])
        mod = common.load_prop(prop)
        res = mod.run_shard(spec)
    except BaseException:
        res = {"cases": [], "counts": {}, "error": traceback.format_exc()[-3000:]}
        rc = 3
    tmp = res_path + ".tmp"
    from asimap_verif import rig as _rig

    _rig._GUARD["armed"] = False
    with open(tmp, "w") as f:
        json.dump(res, f, default=repr)
        f.flush()
        os.fsync(f.fileno())
    os.rename(tmp, res_path)
    sys.stdout.flush()
    sys.stderr.flush()
    os._exit(rc)


if __name__ == "__main__":
    main()
