#!/bin/sh
# Maintenance helper (not used by checks): confirm a seeded change delivered by a
# sub-agent in its scratch worktree /tmp/seed/<ID>/_seed/{patch.diff,demo.py}:
#   demo on the unchanged tree must exit 0, with the patch non-zero, and the
#   pinned suite with the patch must give 513 passes and only baseline failures.
# usage: tools_seed_confirm.sh C07      -> writes /tmp/seed/C07/_seed/confirm.json
set -u
id=$1
wt=${SEEDROOT:-/tmp/seed}/$id
sd=$wt/_seed
cd "$wt" || exit 9
git checkout -q -- . 2>/dev/null
export PYTHONDONTWRITEBYTECODE=1
timeout 600 /venv/bin/python -B "$sd/demo.py" >"$sd/demo_without.txt" 2>&1; rc_without=$?
git apply "$sd/${PATCH:-patch.diff}" || { echo "{\"id\":\"$id\",\"error\":\"patch does not apply\"}" >"$sd/confirm.json"; exit 8; }
timeout 600 /venv/bin/python -B "$sd/demo.py" >"$sd/demo_with.txt" 2>&1; rc_with=$?
# test_server.py binds a fixed port: run it apart, serialised by a lock, retried when another suite held the port
timeout 1800 /venv/bin/python -m pytest -ra -q -p no:cacheprovider --timeout=900 --continue-on-collection-errors --ignore=asimap/test/test_server.py >"$sd/suite_with.txt" 2>&1
for try in 1 2 3 4 5; do
  flock ${SEEDROOT:-/tmp/seed2}/server.lock timeout 600 /venv/bin/python -m pytest -ra -q -p no:cacheprovider --timeout=900 asimap/test/test_server.py >"$sd/suite_server_with.txt" 2>&1
  grep -q 'test_server_capability' "$sd/suite_server_with.txt" || break
  sleep 7
done
summary="$(grep -E ' passed| failed' "$sd/suite_with.txt" | tail -1) + server: $(grep -E ' passed| failed' "$sd/suite_server_with.txt" | tail -1)"
fails=$(cat "$sd/suite_with.txt" "$sd/suite_server_with.txt" | grep -E '^(FAILED|ERROR) asimap' | sed 's/ - .*//' | sort | tr '\n' ';')
git checkout -q -- .
find . -name __pycache__ -prune -exec rm -rf {} + 2>/dev/null
printf '{"id":"%s","demo_without_rc":%s,"demo_with_rc":%s,"suite_summary":"%s","suite_fails":"%s"}\n' "$id" "$rc_without" "$rc_with" "$summary" "$fails" >"$sd/confirm.json"
cat "$sd/confirm.json"
