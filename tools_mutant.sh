#!/bin/sh
# Maintenance helper: apply a patch (or reverse a fix commit with -R <commit>) to /repo,
# run the given checks, undo.  usage: tools_mutant.sh [-R commit | patch.diff] PROP...
set -u
if [ "$1" = "-R" ]; then
  git -C /repo show "$2" | git -C /repo apply -R || exit 9; shift 2
else
  git -C /repo apply "$1" || exit 9; shift
fi
for p in "$@"; do
  find /verif/replays -name "$p-*.json" -delete
  out=$(cd /verif && timeout 1200 ./check $p 2>&1); rc=$?
  echo "== $p rc=$rc: $(echo "$out" | grep -c '^VIOLATION') violation line(s); $(echo "$out" | tail -1)"
  echo "$out" | grep -A1 '^VIOLATION' | head -4
done
git -C /repo checkout -- .
git -C /repo status --short | head -3
