#!/venv/bin/python
"""Maintenance helper: run the first shards of a check in-process and print a histogram of witness kinds.
usage: tools_kinds.py PROP [nshards] [tier]"""
import sys, os, json, tempfile, logging, collections
sys.path.insert(0, '/verif'); sys.path.insert(0, '/repo')
os.environ.setdefault("PYTHONHASHSEED", "0")
logging.basicConfig(level=logging.CRITICAL)
from asimap_verif import common
from asimap_verif.rig import install_guard
prop = sys.argv[1]; n = int(sys.argv[2]) if len(sys.argv) > 2 else 2; tier = sys.argv[3] if len(sys.argv) > 3 else "quick"
mod = common.load_prop(prop)
d = tempfile.mkdtemp(prefix="av-kinds."); install_guard([d]); os.environ["TMPDIR"] = d
c = collections.Counter(); ex = {}
for spec in mod.plan(tier, int(os.environ.get("VERIF_SEED", "0")), 1.0)[:n]:
    res = mod.run_shard(dict(spec, scratch=d))
    if res.get("error"): print(res["error"])
    for cs in res["cases"]:
        w = cs.get("witness")
        if w:
            k = (w.get("kind"), tuple(w.get("all") or []) if w.get("all") else w.get("mech")); c[k] += 1; ex.setdefault(k, w)
        elif cs["verdict"] != "held": c[("INCONCLUSIVE", cs.get("reason", "")[:80])] += 1
for k, v in c.most_common(30):
    w = ex.get(k, {})
    print(v, k); print("      ", str(w.get("detail"))[:400]); 
    for f in ("stream", "input", "cmd"): 
        if w.get(f): print("      ", f, "=", repr(w[f])[:300], w.get("cuts", ""), w.get("limit", ""))
import shutil; shutil.rmtree(d, ignore_errors=True)
os._exit(0)
